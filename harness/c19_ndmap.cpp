// C19: nd_map visits every index tuple of the box exactly once and nothing else.
#include <algorithm>
#include <array>
#include <cstdint>
#include <functional>
#include <memory>
#include <string>
#include <vector>

#include <covfie/core/utility/nd_map.hpp>
#include <covfie/core/utility/nd_size.hpp>

#include "vh.hpp"

// hostile: the extent vector is handed over as an lvalue and the CALLBACK overwrites that object during the walk
// (1: zeroes it, 2: enlarges it) -- the box to be visited is the one passed at the call
template <typename T, std::size_t N>
static void one(const std::array<uint64_t, N> & ext, const char * why, int hostile = 0)
{
    using tuple_t = covfie::array::array<T, N>;
    std::string name = std::string("nd_map<") + vh::tn<T>() + "," + std::to_string(N) + ">";
    tuple_t s;
    uint64_t prod = 1;
    for (std::size_t k = 0; k < N; ++k) {
        s[k] = (T)ext[k];
        prod *= ext[k];
    }
    vh::set_case("%s extents=%s (%s)", name.c_str(), vh::jarr(ext, N).c_str(), why);
    std::vector<std::array<uint64_t, N>> seen;
    seen.reserve(prod);
    uint64_t outside = 0;
    covfie::utility::nd_map<tuple_t>(
        [&](tuple_t t) {
            std::array<uint64_t, N> a;
            for (std::size_t k = 0; k < N; ++k) {
                a[k] = (uint64_t)t[k];
                if (!(a[k] < ext[k])) ++outside;
            }
            seen.push_back(a);
            if (hostile && seen.size() == (prod + 1) / 2)
                for (std::size_t k = 0; k < N; ++k) s[k] = hostile == 1 ? (T)0 : (T)(ext[k] + 2);
        },
        s);
    if (hostile) vh::stat("walks_with_the_extent_object_overwritten_by_the_callback");
    vh::ev();
    vh::stat("callbacks", seen.size());
    bool alleq = true;
    for (std::size_t k = 1; k < N; ++k) alleq = alleq && ext[k] == ext[0];
    if (N >= 2 && !alleq) {
        vh::nontrivial(vh::fnv(name, vh::fnv(ext.data(), sizeof(uint64_t) * N)));
        if (prod > 4) vh::sample(name, "extents=" + vh::jarr(ext, N) + " callbacks=" + std::to_string(seen.size()), 1);
    }
    std::string d = "extents=" + vh::jarr(ext, N);
    if (seen.size() != prod) {
        vh::viol(name + ":count", d + " callbacks=" + std::to_string(seen.size()) + " expected=" + std::to_string(prod));
        return;
    }
    if (outside) {
        vh::viol(name + ":outside", d + " tuples_outside=" + std::to_string(outside));
        return;
    }
    std::sort(seen.begin(), seen.end());
    auto dup = std::adjacent_find(seen.begin(), seen.end());
    if (dup != seen.end()) vh::viol(name + ":duplicate", d + " tuple=" + vh::jarr(*dup, N));
    // count == prod, all inside, no duplicates  =>  exactly the box
}

template <typename T, std::size_t N>
static void sweep(uint64_t B, vh::Rng & rng, unsigned nrandom)
{
    std::array<uint64_t, N> e;
    e.fill(0);
    for (;;) {
        one<T, N>(e, "exhaustive");
        if (N <= 3 || (e[0] + e[N - 1]) % 2 == 0) {
            one<T, N>(e, "exhaustive, callback zeroes the caller's extent object half-way", 1);
            one<T, N>(e, "exhaustive, callback enlarges the caller's extent object half-way", 2);
        }
        std::size_t k = 0;
        while (k < N && ++e[k] > B) {
            e[k] = 0;
            ++k;
        }
        if (k == N) break;
    }
    for (unsigned r = 0; r < nrandom; ++r) {
        uint64_t budget = vh::st().thorough ? 200000 : 20000, cap = sizeof(T) == 1 ? 200 : 4000;
        for (std::size_t k = 0; k < N; ++k) {
            uint64_t hi = std::min<uint64_t>(cap, std::max<uint64_t>(1, budget));
            e[k] = 1 + rng.below(hi);
            if (rng.below(8) == 0) e[k] = 1;
            budget /= e[k];
            if (budget == 0) budget = 1;
        }
        // shuffle so the large extent is not always first
        for (std::size_t k = N; k > 1; --k) std::swap(e[k - 1], e[rng.below(k)]);
        one<T, N>(e, "random");
        if (r % 4 == 0) one<T, N>(e, "random, callback zeroes the caller's extent object half-way", 1 + (int)(r / 4 % 2));
    }
}

// Boxes far too large to walk to the end (an extent of 2^31, 2^32 + 3, 2^40 in some position): the first K callbacks are
// observed, then the callback stops the walk by throwing.  Fewer than K callbacks (a box silently skipped or cut short)
// or a tuple outside the box is a violation; the order of visits is not asserted.
struct StopWalk {
};
template <typename T, std::size_t N>
static void huge(const std::array<uint64_t, N> & ext, unsigned K)
{
    using tuple_t = covfie::array::array<T, N>;
    std::string name = std::string("nd_map<") + vh::tn<T>() + "," + std::to_string(N) + ">:huge";
    tuple_t s;
    unsigned __int128 prod = 1;
    for (std::size_t k = 0; k < N; ++k) {
        s[k] = (T)ext[k];
        prod *= ext[k];
    }
    vh::set_case("%s extents=%s (first %u callbacks)", name.c_str(), vh::jarr(ext, N).c_str(), K);
    std::vector<std::array<uint64_t, N>> seen;
    uint64_t outside = 0;
    bool stopped = false;
    try {
        covfie::utility::nd_map<tuple_t>(
            [&](tuple_t t) {
                std::array<uint64_t, N> a;
                for (std::size_t k = 0; k < N; ++k) {
                    a[k] = (uint64_t)t[k];
                    if (!(a[k] < ext[k])) ++outside;
                }
                seen.push_back(a);
                if (seen.size() >= K) throw StopWalk();
            },
            s);
    } catch (const StopWalk &) {
        stopped = true;
    }
    vh::ev();
    vh::stat("callbacks", seen.size());
    vh::stat("huge_boxes");
    vh::nontrivial(vh::fnv(name, vh::fnv(ext.data(), sizeof(uint64_t) * N)));
    const std::string d = "extents=" + vh::jarr(ext, N);
    const uint64_t want = prod < K ? (uint64_t)prod : K;
    if (seen.size() != want || (prod >= K) != stopped) vh::viol(name + ":count", d + " callbacks=" + std::to_string(seen.size()) + " before the walk ended, expected " + std::to_string(want));
    if (outside) vh::viol(name + ":outside", d + " tuples_outside=" + std::to_string(outside));
    std::sort(seen.begin(), seen.end());
    if (std::adjacent_find(seen.begin(), seen.end()) != seen.end()) vh::viol(name + ":duplicate", d);
    vh::sample(name, d + " first " + std::to_string(seen.size()) + " callbacks inside the box and distinct", 1);
}

// boxes whose cell count is a multiple of 2^(bits of the tuple's scalar type): a count kept in that type wraps to 0
template <typename T>
static void wrapping_counts()
{
    const uint64_t two = sizeof(T) == 1 ? 16 : 256;   // two * two == 2^bits
    one<T, 2>({two, two}, "count wraps");
    one<T, 2>({two / 2, two * 2 > 255 && sizeof(T) == 1 ? two : two * 2}, "count wraps");
    one<T, 3>({two / 4, 4, two}, "count wraps");
    one<T, 3>({two, 1, two}, "count wraps");
    one<T, 4>({3, two / 4, 4, two}, "count wraps");
    one<T, 2>({two - 1, two + 1}, "control");
}

// The callback in every form a caller may hand over: a temporary closure that OWNS state by value (a vector, a long
// string, a shared_ptr), the same closure as a named object, moved, wrapped in std::function (lvalue and temporary),
// and a functor object.  Whatever the form, every tuple of the box is delivered exactly once to a callback whose
// owned state is intact (a callback object that was moved from between two calls has lost it).
template <typename T, std::size_t N>
struct Collector {
    using tuple_t = covfie::array::array<T, N>;
    std::shared_ptr<std::vector<std::array<uint64_t, N>>> log;
    std::vector<uint64_t> guard;
    std::string label;
    uint64_t * lost;
    void operator()(tuple_t t)
    {
        if (!log || guard.size() != 9 || guard[8] != 0xC19C19ull || label.size() != 48) {
            ++*lost;
            return;
        }
        std::array<uint64_t, N> a;
        for (std::size_t k = 0; k < N; ++k) a[k] = (uint64_t)t[k];
        log->push_back(a);
    }
};

template <typename T, std::size_t N>
static void forms_one(const std::array<uint64_t, N> & ext)
{
    using tuple_t = covfie::array::array<T, N>;
    std::string name = std::string("nd_map<") + vh::tn<T>() + "," + std::to_string(N) + ">:callable-forms";
    if (!vh::selected(name)) return;
    tuple_t s;
    uint64_t prod = 1;
    for (std::size_t k = 0; k < N; ++k) {
        s[k] = (T)ext[k];
        prod *= ext[k];
    }
    static const char * const form_names[] = {"temporary closure owning its state", "named closure", "moved closure", "std::function lvalue",
                                              "std::function temporary", "functor object", "temporary functor", "const std::function",
                                              "closure returning bool (false)", "closure returning int (0)", "closure returning a null pointer", "closure returning a running count"};
    for (int form = 0; form < 12; ++form) {
        vh::set_case("%s extents=%s form=%s", name.c_str(), vh::jarr(ext, N).c_str(), form_names[form]);
        auto log = std::make_shared<std::vector<std::array<uint64_t, N>>>();
        uint64_t lost = 0;
        std::vector<uint64_t> guard(9, 7);
        guard[8] = 0xC19C19ull;
        std::string label(48, 'x');
        auto make = [&]() {
            return [log, guard, label, lp = &lost](tuple_t t) mutable {
                if (!log || guard.size() != 9 || guard[8] != 0xC19C19ull || label.size() != 48) {
                    ++*lp;
                    return;
                }
                std::array<uint64_t, N> a;
                for (std::size_t k = 0; k < N; ++k) a[k] = (uint64_t)t[k];
                log->push_back(a);
            };
        };
        switch (form) {
        case 0: covfie::utility::nd_map<tuple_t>(make(), s); break;
        case 1: {
            auto cb = make();
            covfie::utility::nd_map<tuple_t>(cb, s);
            break;
        }
        case 2: {
            auto cb = make();
            covfie::utility::nd_map<tuple_t>(std::move(cb), s);
            break;
        }
        case 3: {
            std::function<void(tuple_t)> fn = make();
            covfie::utility::nd_map<tuple_t>(fn, s);
            break;
        }
        case 4: covfie::utility::nd_map<tuple_t>(std::function<void(tuple_t)>(make()), s); break;
        case 5: {
            Collector<T, N> c{log, guard, label, &lost};
            covfie::utility::nd_map<tuple_t>(c, s);
            break;
        }
        case 6: covfie::utility::nd_map<tuple_t>(Collector<T, N>{log, guard, label, &lost}, s); break;
        case 7: {
            const std::function<void(tuple_t)> fn = make();
            covfie::utility::nd_map<tuple_t>(fn, s);
            break;
        }
        // a callback may return something; nd_map promises a visit per tuple whatever that is
        case 8:
            covfie::utility::nd_map<tuple_t>([cb = make()](tuple_t t) mutable -> bool { cb(t); return false; }, s);
            break;
        case 9:
            covfie::utility::nd_map<tuple_t>([cb = make()](tuple_t t) mutable -> int { cb(t); return 0; }, s);
            break;
        case 10:
            covfie::utility::nd_map<tuple_t>([cb = make()](tuple_t t) mutable -> const void * { cb(t); return nullptr; }, s);
            break;
        case 11: {
            auto cb = [inner = make(), n = std::size_t(0)](tuple_t t) mutable -> std::size_t { inner(t); return n++ % 3; };
            covfie::utility::nd_map<tuple_t>(cb, s);
            break;
        }
        }
        vh::ev();
        vh::stat("walks_by_callable_form");
        bool alleq = true;
        for (std::size_t k = 1; k < N; ++k) alleq = alleq && ext[k] == ext[0];
        if (N >= 2 && !alleq) vh::nontrivial(vh::mix(vh::fnv(name, vh::fnv(ext.data(), sizeof(uint64_t) * N)), form));
        std::string d = "extents=" + vh::jarr(ext, N) + " form=" + form_names[form];
        if (lost) {
            vh::viol(name + ":callback-state-lost", d + ": " + std::to_string(lost) + " calls reached a callback object whose owned state was gone");
            continue;
        }
        if (log->size() != prod) {
            vh::viol(name + ":count", d + " callbacks=" + std::to_string(log->size()) + " expected=" + std::to_string(prod));
            continue;
        }
        std::sort(log->begin(), log->end());
        bool bad = std::adjacent_find(log->begin(), log->end()) != log->end();
        for (auto & a : *log)
            for (std::size_t k = 0; k < N; ++k) bad = bad || !(a[k] < ext[k]);
        if (bad) vh::viol(name + ":not-the-box", d);
    }
}

template <typename T, std::size_t N>
static void forms(vh::Rng & rng, unsigned nrandom)
{
    std::array<uint64_t, N> e;
    // every extent vector over {0,1,2,3}, then random ones
    e.fill(0);
    for (;;) {
        forms_one<T, N>(e);
        std::size_t k = 0;
        while (k < N && ++e[k] > 3) {
            e[k] = 0;
            ++k;
        }
        if (k == N) break;
    }
    for (unsigned r = 0; r < nrandom; ++r) {
        for (std::size_t k = 0; k < N; ++k) e[k] = 1 + rng.below(N <= 2 ? 40 : 7);
        forms_one<T, N>(e);
    }
}

int main(int argc, char ** argv)
{
    vh::init(argc, argv);
    bool th = vh::st().thorough;
    wrapping_counts<unsigned char>();
    wrapping_counts<unsigned short>();
    wrapping_counts<short>();
    {
        const uint64_t P31 = 1ull << 31, P32 = 1ull << 32, P40 = 1ull << 40;
        const unsigned K = th ? 20000 : 3000;
        huge<std::size_t, 1>({P32 + 3}, K);
        huge<std::size_t, 2>({2, P31}, K);
        huge<std::size_t, 2>({2, 3000000000ull}, K);
        huge<std::size_t, 2>({2, P32 + 3}, K);
        huge<std::size_t, 2>({P31 + 1, 3}, K);
        huge<std::size_t, 2>({P40, P40}, K);
        huge<std::size_t, 3>({2, 1, P31}, K);
        huge<std::size_t, 3>({1, P32 + 5, 2}, K);
        huge<std::size_t, 3>({3, 2, P40 + 1}, K);
        huge<std::size_t, 4>({1, 2, P32, 1}, K);
        huge<std::size_t, 5>({1, 1, 2, 1, P31 + 7}, K);
        huge<long, 2>({2, P31 + 9}, K);
        huge<long, 3>({1, 3, P32 + 1}, K);
        huge<unsigned, 2>({3, P31 + 5}, K);
        huge<unsigned, 3>({2, 2, 4000000000ull}, K);
        huge<int, 2>({2, P31 - 1}, K);
        huge<std::size_t, 2>({0, P40}, K);   // an empty box with a huge trailing extent: no callback at all
        huge<std::size_t, 3>({5, 0, P40}, K);
    }
    vh::Rng rng(vh::st().seed * 7919 + 19);
    uint64_t B = th ? 6 : 4;
    unsigned nr = th ? 400 : 60;
    sweep<std::size_t, 1>(th ? 300 : 64, rng, nr);
    sweep<std::size_t, 2>(th ? 24 : 12, rng, nr);
    sweep<std::size_t, 3>(th ? 8 : B, rng, nr);
    sweep<std::size_t, 4>(B, rng, nr);
    sweep<std::size_t, 5>(B, rng, nr);
    sweep<int, 2>(B, rng, nr / 4);
    sweep<int, 3>(B, rng, nr / 4);
    sweep<unsigned, 4>(th ? 5 : 3, rng, nr / 4);
    sweep<unsigned char, 3>(B, rng, nr / 4);
    sweep<long, 5>(th ? 4 : 3, rng, nr / 4);
    forms<std::size_t, 1>(rng, nr / 4);
    forms<std::size_t, 2>(rng, nr / 2);
    forms<std::size_t, 3>(rng, nr / 2);
    forms<std::size_t, 4>(rng, nr / 4);
    forms<int, 2>(rng, nr / 4);
    forms<unsigned, 3>(rng, nr / 4);
    return vh::finish();
}
