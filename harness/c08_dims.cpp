// C08, dimension mismatch: a dump of an N-dimensional stack offered to the loader of the SAME layer kinds with another
// number of dimensions (the outer tags agree; only the amount of configuration differs).  Every such stream must be
// rejected with an exception -- never accepted, never an abort, and never a loader that does not return (a hang is
// reported by the watchdog as a violation of its own kind).
#include <cstdint>
#include <sstream>
#include <string>
#include <variant>

#include <covfie/core/backend/primitive/array.hpp>
#include <covfie/core/backend/transformer/affine.hpp>
#include <covfie/core/backend/transformer/backup.hpp>
#include <covfie/core/backend/transformer/clamp.hpp>
#include <covfie/core/backend/transformer/hilbert.hpp>
#include <covfie/core/backend/transformer/linear.hpp>
#include <covfie/core/backend/transformer/morton.hpp>
#include <covfie/core/backend/transformer/nearest_neighbour.hpp>
#include <covfie/core/backend/transformer/strided.hpp>
#include <covfie/core/field.hpp>

#include "vh.hpp"

namespace cb = covfie::backend;
namespace cv = covfie::vector;

enum { O_STRIDED, O_MORTON_T, O_MORTON_F, O_HILBERT };
static const char * oname[] = {"strided", "morton<true>", "morton<false>", "hilbert"};
enum { W_NONE, W_CLAMP, W_BACKUP, W_NN, W_AFFINE_LINEAR };
static const char * wname[] = {"", "clamp<", "backup<", "nearest_neighbour<", "affine<linear<"};

template <int O, typename I, std::size_t N, typename S, std::size_t M>
struct order_of {
    using idx = cv::vector_d<I, N>;
    using arr = cb::array<cv::vector_d<S, M>>;
    using type = std::conditional_t<O == O_STRIDED, cb::strided<idx, arr>, std::conditional_t<O == O_MORTON_T, cb::morton<idx, arr, true>, std::conditional_t<O == O_MORTON_F, cb::morton<idx, arr, false>, cb::hilbert<idx, arr>>>>;
};

template <int W, int O, typename I, std::size_t N, typename S, std::size_t M>
struct Stack {
    using order_t = typename order_of<O, I, N, S, M>::type;
    using real_d = cv::vector_d<float, N>;
    using backend_t = std::conditional_t<W == W_NONE, order_t, std::conditional_t<W == W_CLAMP, cb::clamp<order_t>, std::conditional_t<W == W_BACKUP, cb::backup<order_t>, std::conditional_t<W == W_NN, cb::nearest_neighbour<order_t, real_d>, cb::affine<cb::linear<order_t, real_d>>>>>>;
    using field_t = covfie::field<backend_t>;
    static std::string name()
    {
        return std::string(wname[W]) + oname[O] + "<" + vh::tn<I>() + "," + std::to_string(N) + ">,array<" + vh::tn<S>() + "," + std::to_string(M) + ">";
    }
    static field_t make(vh::Rng & rng)
    {
        covfie::utility::nd_size<N> ext;
        std::size_t mx = 0, side = 1, len = 1;
        for (std::size_t k = 0; k < N; ++k) {
            ext[k] = 1 + rng.below(5);
            mx = ext[k] > mx ? ext[k] : mx;
        }
        while (side < mx) side *= 2;
        for (std::size_t k = 0; k < N; ++k) len *= (O == O_STRIDED ? ext[k] : side);
        auto tail = [&] { return covfie::make_parameter_pack(typename order_t::configuration_t(ext), covfie::utility::nd_size<1>{len}); };
        (void)tail;
        if constexpr (W == W_NONE)
            return field_t(covfie::make_parameter_pack(typename order_t::configuration_t(ext), covfie::utility::nd_size<1>{len}));
        else if constexpr (W == W_CLAMP) {
            typename backend_t::configuration_t c;
            for (std::size_t k = 0; k < N; ++k) {
                c.min[k] = 0;
                c.max[k] = (I)(ext[k] - 1);
            }
            return field_t(covfie::make_parameter_pack(std::move(c), typename order_t::configuration_t(ext), covfie::utility::nd_size<1>{len}));
        } else if constexpr (W == W_BACKUP) {
            typename backend_t::configuration_t c;
            for (std::size_t k = 0; k < N; ++k) {
                c.min[k] = 0;
                c.max[k] = (I)(ext[k] - 1);
            }
            for (std::size_t j = 0; j < M; ++j) c.default_value[j] = (S)-3;
            return field_t(covfie::make_parameter_pack(std::move(c), typename order_t::configuration_t(ext), covfie::utility::nd_size<1>{len}));
        } else if constexpr (W == W_NN)
            return field_t(covfie::make_parameter_pack(std::monostate{}, typename order_t::configuration_t(ext), covfie::utility::nd_size<1>{len}));
        else {
            typename backend_t::configuration_t m(backend_t::matrix_t::identity());
            return field_t(covfie::make_parameter_pack(std::move(m), std::monostate{}, typename order_t::configuration_t(ext), covfie::utility::nd_size<1>{len}));
        }
    }
};

template <class A, class B>
static void offer(vh::Rng & rng, unsigned reps)
{
    const std::string det = "dump of " + A::name() + " offered to " + B::name();
    if (!vh::selected(det)) return;
    for (unsigned r = 0; r < reps; ++r) {
        typename A::field_t f = A::make(rng);
        std::stringstream ss(std::ios::in | std::ios::out | std::ios::binary);
        f.dump(ss);
        vh::set_case("%s (#%u, %zu bytes)", det.c_str(), r, ss.str().size());
        vh::ev();
        vh::nontrivial(vh::fnv(ss.str().data(), ss.str().size(), vh::fnv(det)));
        vh::stat("faults:dimension-mismatch");
        try {
            typename B::field_t g(static_cast<std::istream &>(ss));
            vh::viol("dimension-mismatch:accepted", det);
        } catch (const std::exception &) {
        } catch (...) {
            vh::viol("dimension-mismatch:non-std-exception", det);
        }
    }
    vh::sample("dimension-mismatch", det, 2);
}

template <int W, int O, typename I, typename S, std::size_t M>
static void ladder(vh::Rng & rng, unsigned reps)
{
    if constexpr (O == O_HILBERT) {
        // Hilbert exists for N = 2 only: against the Morton layers of 1, 2 (other tag) and 3 dimensions
        offer<Stack<W, O_HILBERT, I, 2, S, M>, Stack<W, O_MORTON_T, I, 3, S, M>>(rng, reps);
        offer<Stack<W, O_MORTON_F, I, 1, S, M>, Stack<W, O_HILBERT, I, 2, S, M>>(rng, reps);
        offer<Stack<W, O_MORTON_T, I, 3, S, M>, Stack<W, O_HILBERT, I, 2, S, M>>(rng, reps);
    } else {
        offer<Stack<W, O, I, 1, S, M>, Stack<W, O, I, 2, S, M>>(rng, reps);
        offer<Stack<W, O, I, 2, S, M>, Stack<W, O, I, 1, S, M>>(rng, reps);
        offer<Stack<W, O, I, 2, S, M>, Stack<W, O, I, 3, S, M>>(rng, reps);
        offer<Stack<W, O, I, 3, S, M>, Stack<W, O, I, 2, S, M>>(rng, reps);
        offer<Stack<W, O, I, 3, S, M>, Stack<W, O, I, 4, S, M>>(rng, reps);
        offer<Stack<W, O, I, 4, S, M>, Stack<W, O, I, 3, S, M>>(rng, reps);
        offer<Stack<W, O, I, 1, S, M>, Stack<W, O, I, 3, S, M>>(rng, reps);
        offer<Stack<W, O, I, 4, S, M>, Stack<W, O, I, 2, S, M>>(rng, reps);
    }
}

#ifndef SH_O
#define SH_O O_STRIDED
#endif

int main(int argc, char ** argv)
{
    vh::init(argc, argv);
    vh::Rng rng(vh::st().seed * 49979687 + 8 + SH_O);
    const unsigned reps = vh::st().thorough ? 40 : 6;
    ladder<W_NONE, SH_O, std::size_t, float, 2>(rng, reps);
    ladder<W_NONE, SH_O, unsigned, double, 1>(rng, reps);
    ladder<W_NONE, SH_O, int, float, 3>(rng, reps);
    ladder<W_CLAMP, SH_O, std::size_t, float, 1>(rng, reps);
    ladder<W_BACKUP, SH_O, std::size_t, double, 2>(rng, reps);
    ladder<W_NN, SH_O, std::size_t, float, 3>(rng, reps);
    ladder<W_AFFINE_LINEAR, SH_O, std::size_t, float, 2>(rng, reps);
    return vh::finish();
}
