// C09: the affine layer maps x to A.x + t; affine transforms compose as functions; factories.
#include <cmath>
#include <cstdint>
#include <limits>
#include <variant>
#include <vector>

#include <quadmath.h>

#include <covfie/core/algebra/affine.hpp>
#include <covfie/core/backend/primitive/identity.hpp>
#include <covfie/core/backend/transformer/affine.hpp>
#include <covfie/core/field.hpp>
#include <covfie/core/field_view.hpp>

#include "probes.hpp"
#include "vh.hpp"

typedef __float128 Q;

static std::string qs(Q v)
{
    char b[64];
    quadmath_snprintf(b, sizeof b, "%.20Qg", v);
    return b;
}

template <std::size_t N>
struct RefAffine {  // N x (N+1), plain arrays in binary128
    Q a[N][N + 1];
    void apply(const Q * x, Q * y) const
    {
        for (std::size_t i = 0; i < N; ++i) {
            Q s = a[i][N];
            for (std::size_t j = 0; j < N; ++j) s += a[i][j] * x[j];
            y[i] = s;
        }
    }
    RefAffine abs() const
    {
        RefAffine r;
        for (std::size_t i = 0; i < N; ++i)
            for (std::size_t j = 0; j <= N; ++j) r.a[i][j] = fabsq(a[i][j]);
        return r;
    }
};

template <std::size_t N, typename T>
struct Case {
    using aff_t = covfie::algebra::affine<N, T>;
    using mat_t = covfie::algebra::matrix<N, N + 1, T>;
    using vec_t = covfie::algebra::vector<N, T>;

    static aff_t make(const RefAffine<N> & r)
    {
        covfie::array::array<covfie::array::array<T, N + 1>, N> l;
        for (std::size_t i = 0; i < N; ++i)
            for (std::size_t j = 0; j <= N; ++j) l[i][j] = (T)r.a[i][j];
        return aff_t(mat_t(l));
    }
    static std::string show(const RefAffine<N> & r)
    {
        std::string s = "[";
        for (std::size_t i = 0; i < N; ++i) {
            s += i ? ";" : "";
            for (std::size_t j = 0; j <= N; ++j) s += (j ? " " : "") + qs(r.a[i][j]);
        }
        return s + "]";
    }
    static std::string showv(const Q * x)
    {
        std::string s = "(";
        for (std::size_t i = 0; i < N; ++i) s += (i ? "," : "") + qs(x[i]);
        return s + ")";
    }
    static std::string name(const char * what)
    {
        return std::string(what) + "<N=" + std::to_string(N) + "," + vh::tn<T>() + ">";
    }

    static RefAffine<N> rnd_int(vh::Rng & rng, int lim)
    {
        RefAffine<N> r;
        int kind = (int)rng.below(6);
        for (std::size_t i = 0; i < N; ++i)
            for (std::size_t j = 0; j <= N; ++j) {
                Q v = (Q)rng.range(-lim, lim);
                if (kind == 1 && j < N && i != j) v = 0;                        // diagonal + translation
                if (kind == 2 && j < N && i != j && !(i == 0 && j == N - 1)) v = (i == j);  // shear
                if (kind == 2 && j < N && i == j) v = 1;
                r.a[i][j] = v;
            }
        if (kind == 3) {  // permutation matrix + translation
            std::size_t p[N];
            for (std::size_t i = 0; i < N; ++i) p[i] = i;
            for (std::size_t i = N; i > 1; --i) std::swap(p[i - 1], p[rng.below(i)]);
            for (std::size_t i = 0; i < N; ++i)
                for (std::size_t j = 0; j < N; ++j) r.a[i][j] = p[i] == j;
        }
        return r;
    }
    static RefAffine<N> rnd_real(vh::Rng & rng, int emax)
    {
        RefAffine<N> r;
        for (std::size_t i = 0; i < N; ++i)
            for (std::size_t j = 0; j <= N; ++j) {
                T v = (T)std::ldexp(1.0 + rng.unit(), (int)rng.range(-emax, emax));
                if (rng.coin()) v = -v;
                if (rng.below(12) == 0) v = 0;
                r.a[i][j] = (Q)v;  // exactly representable in T by construction
            }
        return r;
    }

    // chain[0] * chain[1] * ... applied to x, as functions (rightmost first)
    static void ref_chain(const std::vector<RefAffine<N>> & ch, const Q * x, Q * y)
    {
        Q cur[N], nxt[N];
        for (std::size_t i = 0; i < N; ++i) cur[i] = x[i];
        for (std::size_t k = ch.size(); k-- > 0;) {
            ch[k].apply(cur, nxt);
            for (std::size_t i = 0; i < N; ++i) cur[i] = nxt[i];
        }
        for (std::size_t i = 0; i < N; ++i) y[i] = cur[i];
    }

    static void chain_case(vh::Rng & rng, std::size_t len, bool exact, bool left_assoc)
    {
        std::vector<RefAffine<N>> ch;
        for (std::size_t k = 0; k < len; ++k) ch.push_back(exact ? rnd_int(rng, len <= 2 ? 8 : 3) : rnd_real(rng, len <= 2 ? 20 : 8));
        Q x[N], y[N], ax[N], ay[N];
        for (std::size_t i = 0; i < N; ++i) {
            if (exact)
                x[i] = (Q)rng.range(-8, 8);
            else {
                T v = (T)std::ldexp(1.0 + rng.unit(), (int)rng.range(-10, 10));
                x[i] = (Q)(rng.coin() ? v : -v);
            }
            ax[i] = fabsq(x[i]);
        }
        ref_chain(ch, x, y);
        std::vector<RefAffine<N>> ach;
        for (auto & c : ch) ach.push_back(c.abs());
        ref_chain(ach, ax, ay);

        std::string nm = name(len == 1 ? "apply" : "compose");
        vh::set_case("%s len=%zu exact=%d", nm.c_str(), len, (int)exact);
        // the real code
        std::vector<aff_t> as;
        for (auto & c : ch) as.push_back(make(c));
        aff_t prod = as[0];
        if (left_assoc) {
            for (std::size_t k = 1; k < len; ++k) prod = prod * as[k];
        } else if (len > 1) {
            aff_t r = as[len - 1];
            for (std::size_t k = len - 1; k-- > 0;) r = as[k] * r;
            prod = r;
        }
        vec_t v;
        for (std::size_t i = 0; i < N; ++i) v(i) = (T)x[i];
        vec_t got = prod * v;

        vh::ev();
        bool nontriv = true;
        if (len >= 2) {  // non-commuting?
            std::vector<RefAffine<N>> sw = ch;
            std::swap(sw[0], sw[1]);
            Q y2[N];
            ref_chain(sw, x, y2);
            nontriv = false;
            for (std::size_t i = 0; i < N; ++i) nontriv = nontriv || y2[i] != y[i];
        }
        if (nontriv) {
            uint64_t h = vh::fnv(nm);
            for (auto & c : ch) h = vh::fnv(&c, sizeof c, h);
            vh::nontrivial(vh::fnv(x, sizeof x, h));
        }
        const Q u = (Q)std::numeric_limits<T>::epsilon() / 2;
        const Q kk = (Q)(N + 2) * (Q)len;
        const Q gamma = kk * u / (1 - kk * u);
        for (std::size_t i = 0; i < N; ++i) {
            Q g = (Q)got(i);
            Q bound = exact ? (Q)0 : 4 * gamma * ay[i] + 4 * (Q)std::numeric_limits<T>::denorm_min();
            Q err = fabsq(g - y[i]);
            if (!(err <= bound)) {
                std::string d = "x=" + showv(x) + " component " + std::to_string(i) + " got=" + qs(g) + " want=" + qs(y[i]) + " err=" + qs(err) + " bound=" + qs(bound) + " chain=";
                for (auto & c : ch) d += show(c);
                d += left_assoc ? " assoc=left" : " assoc=right";
                vh::viol(nm + (exact ? ":exact" : ":rounded"), d);
                break;
            }
            if (!exact && ay[i] > 0) {
                uint64_t ratio = (uint64_t)(1000 * (double)(err / (gamma * ay[i])));
                vh::maxstat("max_err_over_gamma_permille", ratio);
            }
        }
        if (nontriv && len >= 2) vh::sample(nm + (exact ? ":exact" : ":rounded"), "x=" + showv(x) + " chain=" + show(ch[0]) + show(ch[1]) + " -> " + showv(y), 1);
    }

    static void factories(vh::Rng & rng)
    {
        std::string nm = name("factories");
        vh::set_case("%s", nm.c_str());
        T t[4];
        for (auto & e : t) e = (T)rng.range(-9, 9) + (T)0.5;
        aff_t tr, sc;
        if constexpr (N == 1) {
            tr = aff_t::translation(t[0]);
            sc = aff_t::scaling(t[0]);
        } else if constexpr (N == 2) {
            tr = aff_t::translation(t[0], t[1]);
            sc = aff_t::scaling(t[0], t[1]);
        } else if constexpr (N == 3) {
            tr = aff_t::translation(t[0], t[1], t[2]);
            sc = aff_t::scaling(t[0], t[1], t[2]);
        } else {
            tr = aff_t::translation(t[0], t[1], t[2], t[3]);
            sc = aff_t::scaling(t[0], t[1], t[2], t[3]);
        }
        aff_t id = mat_t::identity();
        vh::ev(3);
        vh::nontrivial(vh::fnv(t, sizeof t, vh::fnv(nm)));
        for (std::size_t i = 0; i < N; ++i)
            for (std::size_t j = 0; j <= N; ++j) {
                T wt = j == N ? t[i] : (i == j ? (T)1 : (T)0);
                T ws = j == N ? (T)0 : (i == j ? t[i] : (T)0);
                T wi = (i == j) ? (T)1 : (T)0;
                if (tr(i, j) != wt) vh::viol(nm + ":translation", "entry(" + std::to_string(i) + "," + std::to_string(j) + ")=" + std::to_string(tr(i, j)) + " want " + std::to_string(wt));
                if (sc(i, j) != ws) vh::viol(nm + ":scaling", "entry(" + std::to_string(i) + "," + std::to_string(j) + ")=" + std::to_string(sc(i, j)) + " want " + std::to_string(ws));
                if (id(i, j) != wi) vh::viol(nm + ":identity", "entry(" + std::to_string(i) + "," + std::to_string(j) + ")=" + std::to_string(id(i, j)));
            }
        // arguments of different arithmetic types: each one is converted to the matrix element type on its own
        if constexpr (N >= 2) {
            const int ni = -(int)rng.range(1, 9);
            const unsigned ui = (unsigned)rng.range(1, 9);
            const std::size_t zi = (std::size_t)rng.range(1, 9);
            const float ff = 0.5f + (float)rng.range(0, 4);
            const long big = 16777217l + rng.range(0, 3) * 2;  // not representable in float
            aff_t m1, m2, m3;
            T w1[4] = {}, w2[4] = {}, w3[4] = {};
            if constexpr (N == 2) {
                m1 = aff_t::translation(ni, ui);
                m2 = aff_t::scaling(ni, zi);
                m3 = aff_t::translation(ff, big);
                w1[0] = (T)ni, w1[1] = (T)ui, w2[0] = (T)ni, w2[1] = (T)zi, w3[0] = (T)ff, w3[1] = (T)big;
            } else if constexpr (N == 3) {
                m1 = aff_t::translation(ni, ui, zi);
                m2 = aff_t::scaling(ni, ff, zi);
                m3 = aff_t::translation(ff, big, ni);
                w1[0] = (T)ni, w1[1] = (T)ui, w1[2] = (T)zi, w2[0] = (T)ni, w2[1] = (T)ff, w2[2] = (T)zi, w3[0] = (T)ff, w3[1] = (T)big, w3[2] = (T)ni;
            } else {
                m1 = aff_t::translation(ni, ui, zi, ff);
                m2 = aff_t::scaling(ff, ni, zi, ui);
                m3 = aff_t::translation(ff, big, ni, ui);
                w1[0] = (T)ni, w1[1] = (T)ui, w1[2] = (T)zi, w1[3] = (T)ff, w2[0] = (T)ff, w2[1] = (T)ni, w2[2] = (T)zi, w2[3] = (T)ui, w3[0] = (T)ff, w3[1] = (T)big,
                w3[2] = (T)ni, w3[3] = (T)ui;
            }
            vh::ev(3);
            for (std::size_t i = 0; i < N; ++i) {
                if (m1(i, N) != w1[i]) vh::viol(nm + ":translation-mixed-argument-types", "argument " + std::to_string(i) + " arrived as " + std::to_string(m1(i, N)) + ", expected " + std::to_string(w1[i]));
                if (m2(i, i) != w2[i]) vh::viol(nm + ":scaling-mixed-argument-types", "argument " + std::to_string(i) + " arrived as " + std::to_string(m2(i, i)) + ", expected " + std::to_string(w2[i]));
                if (m3(i, N) != w3[i]) vh::viol(nm + ":translation-mixed-argument-types", "argument " + std::to_string(i) + " arrived as " + std::to_string(m3(i, N)) + ", expected " + std::to_string(w3[i]));
            }
        }
        // scaling * translation, the way every example builds its geometry: x -> s .* (x + t)
        aff_t st = sc * tr;
        vec_t v;
        Q x[N];
        for (std::size_t i = 0; i < N; ++i) {
            x[i] = (Q)rng.range(-8, 8);
            v(i) = (T)x[i];
        }
        vec_t g = st * v;
        vh::ev();
        for (std::size_t i = 0; i < N; ++i) {
            Q want = (Q)t[i] * (x[i] + (Q)t[i]);
            if ((Q)g(i) != want) vh::viol(nm + ":scaling*translation", "component " + std::to_string(i) + " got=" + qs((Q)g(i)) + " want=" + qs(want));
        }
    }

    // the layer: affine<identity<realN>> returns the coordinate its backend was asked for
    static void layer(vh::Rng & rng, bool exact)
    {
        using backend_t = covfie::backend::affine<covfie::backend::identity<covfie::vector::vector_d<T, N>>>;
        using field_t = covfie::field<backend_t>;
        std::string nm = name("layer");
        RefAffine<N> r = exact ? rnd_int(rng, 8) : rnd_real(rng, 20);
        vh::set_case("%s exact=%d", nm.c_str(), (int)exact);
        field_t f(covfie::make_parameter_pack(typename backend_t::configuration_t(make(r)), std::monostate{}));
        typename field_t::view_t view(f);
        for (int rep = 0; rep < 8; ++rep) {
            Q x[N], y[N], ax[N], ay[N];
            typename field_t::coordinate_t c;
            for (std::size_t i = 0; i < N; ++i) {
                if (exact)
                    x[i] = (Q)rng.range(-32, 32) / 4;
                else {
                    T v = (T)std::ldexp(1.0 + rng.unit(), (int)rng.range(-10, 10));
                    x[i] = (Q)(rng.coin() ? v : -v);
                }
                c[i] = (T)x[i];
                ax[i] = fabsq(x[i]);
            }
            r.apply(x, y);
            r.abs().apply(ax, ay);
            typename field_t::output_t g1 = view.at(c);
            typename field_t::output_t g2;
            if constexpr (N == 1)
                g2 = view.at(c[0]);
            else if constexpr (N == 2)
                g2 = view.at(c[0], c[1]);
            else if constexpr (N == 3)
                g2 = view.at(c[0], c[1], c[2]);
            else
                g2 = view.at(c[0], c[1], c[2], c[3]);
            vh::ev(2);
            vh::nontrivial(vh::fnv(x, sizeof x, vh::fnv(&r, sizeof r, vh::fnv(nm))));
            const Q u = (Q)std::numeric_limits<T>::epsilon() / 2;
            const Q kk = (Q)(N + 2);
            const Q gamma = kk * u / (1 - kk * u);
            for (std::size_t i = 0; i < N; ++i) {
                Q bound = exact ? (Q)0 : 4 * gamma * ay[i] + 4 * (Q)std::numeric_limits<T>::denorm_min();
                if (!(fabsq((Q)g1[i] - y[i]) <= bound) || g1[i] != g2[i]) {
                    vh::viol(nm + (exact ? ":exact" : ":rounded"), "A=" + show(r) + " x=" + showv(x) + " component " + std::to_string(i) + " at(vec)=" + qs((Q)g1[i]) + " at(args)=" + qs((Q)g2[i]) + " want=" + qs(y[i]));
                    break;
                }
            }
            if (rep == 0) vh::sample(nm, "A=" + show(r) + " x=" + showv(x) + " -> " + showv(y), 1);
        }
    }

    // the layer over a backend with M != N outputs (a probe returning an injective function of the coordinate it is
    // asked for): what reaches the backend must be A.x + t in EVERY one of the N components
    template <std::size_t M>
    static void layer_nm(vh::Rng & rng)
    {
        using probe_t = probe::nd<covfie::vector::vector_d<T, N>, covfie::vector::vector_d<double, M>>;
        using backend_t = covfie::backend::affine<probe_t>;
        using field_t = covfie::field<backend_t>;
        std::string nm = name("layer") + "->M=" + std::to_string(M);
        RefAffine<N> r = rnd_int(rng, 4);
        vh::set_case("%s", nm.c_str());
        field_t f(covfie::make_parameter_pack(typename backend_t::configuration_t(make(r)), std::monostate{}));
        typename field_t::view_t view(f);
        for (int rep = 0; rep < 6; ++rep) {
            Q x[N], y[N];
            typename field_t::coordinate_t c;
            for (std::size_t i = 0; i < N; ++i) {
                x[i] = (Q)rng.range(-6, 6);
                c[i] = (T)x[i];
            }
            r.apply(x, y);
            typename field_t::output_t g = view.at(c);
            vh::ev();
            vh::nontrivial(vh::fnv(x, sizeof x, vh::fnv(&r, sizeof r, vh::fnv(nm))));
            Q w = 1, sum = 0;
            for (std::size_t k = 0; k < N; ++k) {
                sum += y[k] * w;
                w *= 64;
            }
            for (std::size_t j = 0; j < M; ++j)
                if ((Q)g[j] != sum + (Q)j * w) {
                    vh::viol(nm, "A=" + show(r) + " x=" + showv(x) + ": the backend was not asked at A.x+t=" + showv(y) + " (component " + std::to_string(j) + " of its answer is " + qs((Q)g[j]) + ", expected " + qs(sum + (Q)j * w) + ")");
                    return;
                }
        }
    }

    static void run(vh::Rng & rng, uint64_t n)
    {
        if (!vh::selected(name(""))) return;
        for (int k = 0; k < 40; ++k) {
            layer_nm<1>(rng);
            layer_nm<2>(rng);
            layer_nm<3>(rng);
            layer_nm<4>(rng);
        }
        for (uint64_t i = 0; i < n; ++i) {
            std::size_t len = 1 + rng.below(4);
            chain_case(rng, len, true, rng.coin());
            chain_case(rng, len, false, rng.coin());
            if (i % 16 == 0) {
                factories(rng);
                layer(rng, true);
                layer(rng, false);
            }
        }
    }
};

int main(int argc, char ** argv)
{
    vh::init(argc, argv);
    vh::Rng rng(vh::st().seed * 15485863 + 9);
    uint64_t n = vh::st().thorough ? 400000 : 12000;
    Case<1, float>::run(rng, n);
    Case<2, float>::run(rng, n);
    Case<3, float>::run(rng, n);
    Case<4, float>::run(rng, n);
    Case<1, double>::run(rng, n);
    Case<2, double>::run(rng, n);
    Case<3, double>::run(rng, n);
    Case<4, double>::run(rng, n);
    return vh::finish();
}
