// C01: storage-order layers behave as an N-dimensional array.
//  (a) array-backed, exhaustive small scope: write a unique id to every cell through the view,
//      read every cell back, overwrite one cell, re-read all (non-interference both ways);
//  (b) probe-backed, large scope: every flat index asked of the storage is < its length and no
//      two distinct in-range coordinates reach the same flat index.
#include <cstdint>
#include <limits>
#include <unordered_map>
#include <variant>
#include <vector>

#include <covfie/core/backend/primitive/array.hpp>
#include <covfie/core/backend/transformer/strided.hpp>
#include <covfie/core/field.hpp>
#include <covfie/core/field_view.hpp>
#if defined(SH_MORTON)
#include <covfie/core/backend/transformer/morton.hpp>
#endif
#if defined(SH_HILBERT)
#include <covfie/core/backend/transformer/hilbert.hpp>
#endif

#include "aliases.hpp"
#include "probes.hpp"
#include "storage_common.hpp"
#include "vh.hpp"

namespace cb = covfie::backend;
namespace cv = covfie::vector;

enum { L_STRIDED = 0, L_MORTON_T = 1, L_MORTON_F = 2, L_HILBERT = 3 };
static const char * lname[] = {"strided", "morton<bmi2>", "morton<portable>", "hilbert"};

template <int L, typename IDX, typename STORE>
struct layer_of;
template <typename IDX, typename STORE>
struct layer_of<L_STRIDED, IDX, STORE> {
    using type = cb::strided<IDX, STORE>;
};
#if defined(SH_MORTON)
template <typename IDX, typename STORE>
struct layer_of<L_MORTON_T, IDX, STORE> {
    using type = cb::morton<IDX, STORE, true>;
};
template <typename IDX, typename STORE>
struct layer_of<L_MORTON_F, IDX, STORE> {
    using type = cb::morton<IDX, STORE, false>;
};
#endif
#if defined(SH_HILBERT)
template <typename IDX, typename STORE>
struct layer_of<L_HILBERT, IDX, STORE> {
    using type = cb::hilbert<IDX, STORE>;
};
#endif

template <int L, typename I, std::size_t N, typename S, std::size_t M>
struct Case {
    using idx_d = al::alias_t<I, N>;  // spelled the way users do: covfie::vector::ulong3, double3, ...
    using out_d = al::alias_t<S, M>;
    using backend_t = typename layer_of<L, idx_d, cb::array<out_d>>::type;
    using field_t = covfie::field<backend_t>;
    using pbackend_t = typename layer_of<L, idx_d, probe::flat<out_d>>::type;
    using pfield_t = covfie::field<pbackend_t>;

    static std::string name()
    {
        return std::string(lname[L]) + "<" + vh::tn<I>() + "," + std::to_string(N) + ">,array<" + vh::tn<S>() + "," + std::to_string(M) + ">";
    }

    // double cells hold values a float cannot represent (a cell type narrower than declared would round them)
    static S frac(S v)
    {
        if constexpr (std::is_same_v<S, double>) return v + 0.1;
        return v;
    }

    static uint64_t storage_len(const sc::ext_t<N> & e)
    {
        return L == L_STRIDED ? sc::cells<N>(e) : sc::curve_len<N>(e);
    }

    // ---- (a)
    static void small_scope(std::size_t B, vh::Rng & rng)
    {
        sc::ext_t<N> e;
        for (std::size_t k = 0; k < N; ++k) e[k] = 1;
        do {
            small_one(e, rng);
        } while (sc::next_ext<N>(e, B));
    }
    static void small_one(const sc::ext_t<N> & e, vh::Rng & rng)
    {
        const std::string nm = name();
        {
            vh::set_case("%s extents=%s small-scope", nm.c_str(), sc::show<N>(e).c_str());
            const uint64_t ncell = sc::cells<N>(e);
            field_t f(covfie::make_parameter_pack(typename backend_t::configuration_t(e), covfie::utility::nd_size<1>{storage_len(e)}));
            typename field_t::view_t view(f);
            std::vector<S> model(ncell * M);
            uint64_t c[N] = {};
            uint64_t id = 1 + rng.below(1000);
            // write a unique id to every component of every cell
            do {
                typename field_t::coordinate_t cc;
                for (std::size_t k = 0; k < N; ++k) cc[k] = (I)c[k];
                for (std::size_t j = 0; j < M; ++j) {
                    S v = frac((S)(id++));
                    view.at(cc)[j] = v;
                    model[sc::model_pos<N>(c, e) * M + j] = v;
                }
            } while (sc::next_coord<N>(c, e));
            auto compare_all = [&](const char * phase) -> bool {
                uint64_t d[N] = {};
                do {
                    typename field_t::coordinate_t cc;
                    for (std::size_t k = 0; k < N; ++k) cc[k] = (I)d[k];
                    for (std::size_t j = 0; j < M; ++j) {
                        S got = view.at(cc)[j], want = model[sc::model_pos<N>(d, e) * M + j];
                        vh::ev();
                        if (got != want) {
                            vh::viol(nm + ":" + phase, "extents=" + sc::show<N>(e) + " c=" + vh::jarr(d, N) + " component " + std::to_string(j) + " reads " + std::to_string((double)got) + ", last written " + std::to_string((double)want) + " (the value belongs to another cell: aliasing)");
                            return false;
                        }
                    }
                } while (sc::next_coord<N>(d, e));
                return true;
            };
            bool ok = compare_all("readback");
            if (ok) {
                // overwrite one cell, everything else must be untouched
                uint64_t w[N];
                typename field_t::coordinate_t cc;
                for (std::size_t k = 0; k < N; ++k) {
                    w[k] = rng.below(e[k]);
                    cc[k] = (I)w[k];
                }
                for (std::size_t j = 0; j < M; ++j) {
                    S v = frac((S)(id++));
                    view.at(cc)[j] = v;
                    model[sc::model_pos<N>(w, e) * M + j] = v;
                }
                ok = compare_all("non-interference");
            }
            // a field that received these cells by copy assignment over a field with other extents (smaller for odd cell
            // counts, larger otherwise) holding other values: every coordinate reads what the source holds, and a write
            // through the new field's view is read back there
            if (ok && (ncell % 3 != 1)) {
                vh::set_case("%s extents=%s small-scope (copy-assigned over a field with other extents)", nm.c_str(), sc::show<N>(e).c_str());
                sc::ext_t<N> e2 = e;
                for (std::size_t k = 0; k < N; ++k) e2[k] = (ncell & 1) ? (e[k] > 1 ? e[k] - 1 : 1) : e[k] + 1 + k % 2;
                if (sizeof(I) >= 8 || sc::cells<N>(e2) <= (uint64_t)std::numeric_limits<I>::max() / 2) {
                    field_t o(covfie::make_parameter_pack(typename backend_t::configuration_t(e2), covfie::utility::nd_size<1>{storage_len(e2)}));
                    {
                        typename field_t::view_t vo(o);
                        typename field_t::coordinate_t z;
                        for (std::size_t k = 0; k < N; ++k) z[k] = (I)0;
                        for (std::size_t j = 0; j < M; ++j) vo.at(z)[j] = (S)-77;
                    }
                    o = f;
                    typename field_t::view_t vo(o);
                    uint64_t d[N] = {};
                    do {
                        typename field_t::coordinate_t cc;
                        for (std::size_t k = 0; k < N; ++k) cc[k] = (I)d[k];
                        for (std::size_t j = 0; j < M; ++j) {
                            S got = vo.at(cc)[j], want = model[sc::model_pos<N>(d, e) * M + j];
                            vh::ev();
                            if (got != want) {
                                vh::viol(nm + ":readback-after-copy-assignment", "extents=" + sc::show<N>(e) + " (assigned over extents " + sc::show<N>(e2) + ") c=" + vh::jarr(d, N) + " component " + std::to_string(j) + " reads " + std::to_string((double)got) + ", the source holds " + std::to_string((double)want));
                                ok = false;
                            }
                        }
                    } while (ok && sc::next_coord<N>(d, e));
                    if (ok) {
                        // last cell written through the new field, read back there, the source untouched
                        typename field_t::coordinate_t cc;
                        for (std::size_t k = 0; k < N; ++k) cc[k] = (I)(e[k] - 1);
                        const S before = view.at(cc)[M - 1];
                        vo.at(cc)[M - 1] = (S)4242;
                        vh::ev();
                        if (vo.at(cc)[M - 1] != (S)4242 || view.at(cc)[M - 1] != before) {
                            vh::viol(nm + ":write-after-copy-assignment", "extents=" + sc::show<N>(e));
                            ok = false;
                        }
                    }
                }
            }
            if constexpr (L != L_STRIDED) {
                // the same on a field whose storage the LIBRARY sized: converted from a row-major field
                // (the row-major source accumulates its flat index in the coordinate type: it must be able to count the cells)
                if (ok && (sizeof(I) >= 8 || ncell <= (uint64_t)std::numeric_limits<I>::max())) {
                    vh::set_case("%s extents=%s small-scope (storage allocated by the conversion)", nm.c_str(), sc::show<N>(e).c_str());
                    using src_t = covfie::field<cb::strided<idx_d, cb::array<out_d>>>;
                    src_t src(covfie::make_parameter_pack(typename src_t::backend_t::configuration_t(e), covfie::utility::nd_size<1>{ncell}));
                    field_t conv(src);
                    typename field_t::view_t cv_(conv);
                    uint64_t d[N] = {};
                    uint64_t id2 = 7;
                    do {
                        typename field_t::coordinate_t cc;
                        for (std::size_t k = 0; k < N; ++k) cc[k] = (I)d[k];
                        for (std::size_t j = 0; j < M; ++j) cv_.at(cc)[j] = (S)(id2 + sc::model_pos<N>(d, e) * M + j);
                    } while (sc::next_coord<N>(d, e));
                    for (std::size_t k = 0; k < N; ++k) d[k] = 0;
                    do {
                        typename field_t::coordinate_t cc;
                        for (std::size_t k = 0; k < N; ++k) cc[k] = (I)d[k];
                        for (std::size_t j = 0; j < M; ++j) {
                            vh::ev();
                            if (cv_.at(cc)[j] != (S)(id2 + sc::model_pos<N>(d, e) * M + j)) {
                                vh::viol(nm + ":converted-field-readback", "extents=" + sc::show<N>(e) + " c=" + vh::jarr(d, N) + " component " + std::to_string(j));
                                ok = false;
                            }
                        }
                    } while (ok && sc::next_coord<N>(d, e));
                }
            }
            if (!sc::trivial_ext<N>(e)) {
                vh::nontrivial(vh::fnv(&e, sizeof e, vh::fnv(nm)));
                if (ncell > 6) vh::sample(nm, "extents=" + sc::show<N>(e) + " cells=" + std::to_string(ncell) + " storage=" + std::to_string(storage_len(e)) + (ok ? " ok" : " VIOLATED"), 1);
            }
        }
    }

    // ---- (b)
    static void large_scope(vh::Rng & rng, unsigned nfields, unsigned ncoords)
    {
        const std::string nm = name() + ":probe";
        // the flat index must fit the coordinate type for strided (it accumulates there); curves produce size_t
        const unsigned tbits = std::is_signed_v<I> ? sizeof(I) * 8 - 1 : sizeof(I) * 8;
        const unsigned total = L == L_STRIDED ? (tbits > 62 ? 62 : tbits) : 62;
        for (unsigned fi = 0; fi < nfields; ++fi) {
            sc::ext_t<N> e;
            unsigned per = total / N;
            if (per > 20) per = 20;
            if (per > tbits) per = tbits;
            for (std::size_t k = 0; k < N; ++k) {
                unsigned b = (unsigned)rng.below(per + 1);
                e[k] = 1 + rng.below(1ull << b);
            }
            if (L == L_HILBERT && (fi & 1)) e[1] = e[0];
            probe_one(e, rng, ncoords, fi == 3);
        }
    }
    static void probe_one(const sc::ext_t<N> & e, vh::Rng & rng, unsigned ncoords, bool sample)
    {
        const std::string nm = name() + ":probe";
        {
            vh::set_case("%s extents=%s", nm.c_str(), sc::show<N>(e).c_str());
            pfield_t f(covfie::make_parameter_pack(typename pbackend_t::configuration_t(e), covfie::utility::nd_size<1>{storage_len(e)}));
            typename pfield_t::view_t view(f);
            probe::FlatLog & log = f.backend().get_backend().log();
            std::unordered_map<uint64_t, std::vector<uint64_t>> owner;  // flat index -> first coordinate seen
            for (unsigned q = 0; q < ncoords; ++q) {
                uint64_t c[N];
                typename pfield_t::coordinate_t cc;
                for (std::size_t k = 0; k < N; ++k) {
                    switch (rng.below(8)) {
                    case 0: c[k] = 0; break;
                    case 1: c[k] = e[k] - 1; break;
                    case 2: {
                        uint64_t p = 1ull << rng.below(21);
                        c[k] = p < e[k] ? p : e[k] - 1;
                        break;
                    }
                    case 3: {
                        uint64_t p = (1ull << rng.below(21)) - 1;
                        c[k] = p < e[k] ? p : e[k] - 1;
                        break;
                    }
                    default: c[k] = rng.below(e[k]); break;
                    }
                    cc[k] = (I)c[k];
                }
                uint64_t oob0 = log.oob;
                (void)view.at(cc);
                uint64_t idx = log.last;
                vh::ev();
                if (log.oob != oob0) {
                    vh::viol(nm + ":index-out-of-storage", "extents=" + sc::show<N>(e) + " c=" + vh::jarr(c, N) + " flat index " + std::to_string(idx) + " >= storage length " + std::to_string(log.size));
                    break;
                }
                std::vector<uint64_t> cv_(c, c + N);
                auto it = owner.find(idx);
                if (it == owner.end())
                    owner.emplace(idx, cv_);
                else if (it->second != cv_) {
                    vh::viol(nm + ":two-cells-one-index", "extents=" + sc::show<N>(e) + " c=" + vh::jarr(c, N) + " and c'=(" + vh::join(it->second) + ") both map to flat index " + std::to_string(idx));
                    break;
                }
            }
            if (!sc::trivial_ext<N>(e)) vh::nontrivial(vh::fnv(&e, sizeof e, vh::fnv(nm)));
            if (sample) vh::sample(nm, "extents=" + sc::show<N>(e) + " storage=" + std::to_string(storage_len(e)) + " lookups=" + std::to_string(ncoords) + " distinct flat indices=" + std::to_string(owner.size()), 1);
        }
    }

    static void run(vh::Rng & rng)
    {
        if (!vh::selected(name())) return;
        const bool th = vh::st().thorough;
        const std::size_t Bq[5] = {0, 64, 12, 6, 4}, Bt[5] = {0, 256, 24, 10, 6};
        std::size_t B = th ? Bt[N] : Bq[N];
        // for narrow coordinate types every extent bound is far inside the type
        small_scope(B, rng);
        large_scope(rng, th ? 400 : 40, th ? 4000 : 1000);
    }
};

// narrow coordinate types used over their FULL range: an axis of extent 2^bits (every coordinate 0..max is valid and the
// extent itself is not representable in the coordinate type), and the largest extents the type can address
template <int L, typename I, std::size_t N>
static void full_range(vh::Rng & rng)
{
    using C = Case<L, I, N, float, 1>;
    if (!vh::selected(C::name())) return;
    const uint64_t top = (uint64_t)std::numeric_limits<I>::max() + 1;  // 256, 128, 65536
    std::vector<sc::ext_t<N>> list;
    for (std::size_t ax = 0; ax < N; ++ax)
        for (uint64_t big : {top, top - 1, top / 2 + 1}) {
            for (uint64_t other : {(uint64_t)1, (uint64_t)3, (uint64_t)4, big}) {
                sc::ext_t<N> e;
                for (std::size_t k = 0; k < N; ++k) e[k] = k == ax ? big : other;
                list.push_back(e);
            }
        }
    for (const auto & e : list) {
        // the row-major layer accumulates the flat index in the coordinate type: fields with more cells than it can
        // count are outside its domain (the space-filling curves produce a size_t index and have no such limit)
        if (L == L_STRIDED && sc::cells<N>(e) > (uint64_t)std::numeric_limits<I>::max()) continue;
        if (L == L_HILBERT && N != 2) continue;
        if (C::storage_len(e) <= (1ull << 18) && sc::cells<N>(e) <= (1ull << 16)) C::small_one(e, rng);
        C::probe_one(e, rng, 1500, false);
    }
}

template <int L, typename I>
static void per_index_type(vh::Rng & rng)
{
    if constexpr (L == L_HILBERT) {
        Case<L, I, 2, float, 1>::run(rng);
        Case<L, I, 2, double, 3>::run(rng);
        if constexpr (std::is_same_v<I, std::size_t>) {
            Case<L, I, 2, double, 2>::run(rng);
            Case<L, I, 2, float, 4>::run(rng);
        }
    } else {
        Case<L, I, 1, float, 1>::run(rng);
        Case<L, I, 2, float, 1>::run(rng);
        Case<L, I, 3, float, 1>::run(rng);
        Case<L, I, 4, float, 1>::run(rng);
        Case<L, I, 1, double, 3>::run(rng);
        Case<L, I, 2, double, 3>::run(rng);
        Case<L, I, 3, double, 3>::run(rng);
        Case<L, I, 4, double, 3>::run(rng);
        if constexpr (std::is_same_v<I, std::size_t>) {
            Case<L, I, 1, double, 2>::run(rng);
            Case<L, I, 2, double, 2>::run(rng);
            Case<L, I, 3, double, 2>::run(rng);
            Case<L, I, 4, double, 2>::run(rng);
            Case<L, I, 1, float, 4>::run(rng);
            Case<L, I, 2, float, 4>::run(rng);
            Case<L, I, 3, float, 4>::run(rng);
            Case<L, I, 4, float, 4>::run(rng);
        }
    }
}

#ifndef SH_I
#define SH_I std::size_t
#endif

int main(int argc, char ** argv)
{
    vh::init(argc, argv);
    vh::Rng rng(vh::st().seed * 2750159 + 1);
    al::alias_table_check();
#if defined(SH_NARROW)
#define NARROW_ALL(L)                              \
    full_range<L, unsigned char, 1>(rng);          \
    full_range<L, unsigned char, 2>(rng);          \
    full_range<L, unsigned char, 3>(rng);          \
    full_range<L, signed char, 2>(rng);            \
    full_range<L, unsigned short, 1>(rng);         \
    full_range<L, unsigned short, 2>(rng);         \
    full_range<L, short, 3>(rng);
    NARROW_ALL(L_STRIDED)
    NARROW_ALL(L_MORTON_T)
    NARROW_ALL(L_MORTON_F)
    full_range<L_HILBERT, unsigned char, 2>(rng);
    full_range<L_HILBERT, unsigned short, 2>(rng);
    full_range<L_HILBERT, signed char, 2>(rng);
#else
#if defined(SH_STRIDED)
    per_index_type<L_STRIDED, SH_I>(rng);
#endif
#if defined(SH_MORTON)
    per_index_type<L_MORTON_T, SH_I>(rng);
    per_index_type<L_MORTON_F, SH_I>(rng);
#endif
#if defined(SH_HILBERT)
    per_index_type<L_HILBERT, std::size_t>(rng);
    per_index_type<L_HILBERT, unsigned>(rng);
    per_index_type<L_HILBERT, int>(rng);
#endif
#endif
    return vh::finish();
}
