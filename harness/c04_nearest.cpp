// C04: nearest-neighbour returns the value at a lattice point within 1/2 of the coordinate
// on every axis, for float and double coordinates alike.
#include <cmath>
#include <cstdint>
#include <limits>
#include <variant>
#include <vector>

#include <quadmath.h>

#include <covfie/core/backend/primitive/array.hpp>
#include <covfie/core/backend/primitive/identity.hpp>
#include <covfie/core/backend/transformer/nearest_neighbour.hpp>
#include <covfie/core/backend/transformer/morton.hpp>
#include <covfie/core/backend/transformer/strided.hpp>
#include <covfie/core/field.hpp>
#include <covfie/core/field_view.hpp>

#include "aliases.hpp"
#include "probes.hpp"
#include "vh.hpp"

typedef __float128 Q;
namespace cb = covfie::backend;
namespace cv = covfie::vector;

static std::string qs(Q v)
{
    char b[64];
    quadmath_snprintf(b, sizeof b, "%.25Qg", v);
    return b;
}

template <typename R>
static bool near_half_or_wide(R x)
{
    // within 2 ulp of a half-integer, or not representable in float
    Q q = (Q)x;
    Q fr = q - floorq(q);
    R ulp = std::nextafter(std::fabs(x), std::numeric_limits<R>::infinity()) - std::fabs(x);
    bool near = fabsq(fr - (Q)0.5) <= 2 * (Q)ulp;
    bool wide = (Q)(float)x != q;
    return near || wide;
}

// ---------------------------------------------------------------- identity-backed
template <typename I, typename R, std::size_t N>
struct Ident {
    using backend_t = cb::nearest_neighbour<cb::identity<al::alias_t<I, N>>, al::alias_t<R, N>>;
    using field_t = covfie::field<backend_t>;
    std::string name;
    field_t f;
    typename field_t::view_t v;
    Ident()
        : name(std::string("nn<identity<") + vh::tn<I>() + ">,N=" + std::to_string(N) + "," + vh::tn<R>() + ">")
        , f(covfie::make_parameter_pack(std::monostate{}, std::monostate{}))
        , v(f)
    {
    }

    // x[k] all non-trivially placed; check every axis
    void one(const R * x)
    {
        typename field_t::coordinate_t c;
        for (std::size_t k = 0; k < N; ++k) c[k] = x[k];
        vh::set_case("%s x0=%a", name.c_str(), (double)x[0]);
        typename field_t::output_t p = v.at(c);
        vh::ev();
        bool nt = false;
        for (std::size_t k = 0; k < N; ++k) nt = nt || near_half_or_wide(x[k]);
        if (nt) vh::nontrivial(vh::fnv(x, sizeof(R) * N, vh::fnv(name)));
        for (std::size_t k = 0; k < N; ++k) {
            Q d = fabsq((Q)p[k] - (Q)x[k]);
            if (!(d <= (Q)0.5)) {
                vh::viol(name, "axis " + std::to_string(k) + " x=" + qs((Q)x[k]) + " (" + vh::hexfloat((double)x[k]) + ") chose lattice point " + std::to_string((uint64_t)p[k]) + ", distance " + qs(d) + " > 1/2");
                return;
            }
        }
        variadic(x, p, std::make_index_sequence<N>{});
    }

    // the same point through the variadic overload at(c0, c1, ...): every argument is converted to the
    // coordinate scalar on its own, so spelling one of them in another arithmetic type that holds the
    // same value exactly must choose the same lattice point as at(coordinate_t)
    template <std::size_t K, std::size_t P, typename A>
    static auto pick(const R * x)
    {
        if constexpr (K == P)
            return (A)x[K];
        else
            return x[K];
    }

    template <std::size_t P, typename A, std::size_t... Is>
    typename field_t::output_t at_with(const R * x, std::index_sequence<Is...>)
    {
        return v.at(pick<Is, P, A>(x)...);
    }

    template <std::size_t... Is>
    void variadic(const R * x, const typename field_t::output_t & p, std::index_sequence<Is...> seq)
    {
        auto cmp = [&](const char * how, const typename field_t::output_t & q) {
            vh::ev();
            for (std::size_t k = 0; k < N; ++k)
                if (q[k] != p[k]) {
                    vh::viol(name + ":variadic", std::string("at(") + how + ") chose lattice point " + std::to_string((uint64_t)q[k]) + " on axis " + std::to_string(k) + ", at(coordinate_t) chose " + std::to_string((uint64_t)p[k]) + " for x=" + qs((Q)x[k]) + " (" + vh::hexfloat((double)x[k]) + ")");
                    return;
                }
        };
        cmp("R...", v.at(x[Is]...));
        auto is_int = [](R a) { return a >= 0 && a < (R)2.0e9 && (R)(int)a == a; };
        auto is_flt = [](R a) { return (R)(float)a == a; };
        if (is_int(x[0])) cmp("int first", at_with<0, int>(x, seq));
        if (is_flt(x[0])) cmp("float first", at_with<0, float>(x, seq));
        cmp("long double first", at_with<0, long double>(x, seq));
        if constexpr (N >= 2) {
            if (is_int(x[N - 1])) cmp("int last", at_with<N - 1, int>(x, seq));
            if (is_flt(x[N - 1])) cmp("float last", at_with<N - 1, float>(x, seq));
        }
    }

    void axis_values(std::vector<R> & out, vh::Rng & rng, bool thorough)
    {
        const R inf = std::numeric_limits<R>::infinity();
        const int mant = std::numeric_limits<R>::digits;  // 24 / 53
        auto tri = [&](R h) {
            out.push_back(h);
            out.push_back(std::nextafter(h, -inf));
            out.push_back(std::nextafter(h, inf));
        };
        uint64_t hmax = thorough ? (1u << 16) : (1u << 12);
        for (uint64_t h = 0; h < hmax; ++h) tri((R)h + (R)0.5);
        for (int k = 1; k <= mant - 1; ++k) {
            R h = (R)std::ldexp(1.0, k) - 1;  // 2^k - 1
            if (h + (R)0.5 != h && h + (R)0.5 != h + 1) tri(h + (R)0.5);
            tri(h);
            tri(h + 1);
        }
        for (uint64_t i = 0; i < 64; ++i) out.push_back((R)i);
        out.push_back(std::nextafter((R)-0.5, inf));
        out.push_back((R)-0.25);
        out.push_back(-(R)0);
        if (sizeof(R) == 8) {
            // values a float cannot hold
            for (double base : {16777216.0, 33554432.0, 4294967296.0, 1099511627776.0})
                for (int d = -3; d <= 3; ++d) {
                    out.push_back((R)(base + d));
                    out.push_back((R)(base + d + 0.5));
                    out.push_back(std::nextafter((R)(base + d + 0.5), -inf));
                    out.push_back(std::nextafter((R)(base + d + 0.5), inf));
                }
        }
        // keep everything inside the index type
        const double lim = sizeof(I) == 4 ? (double)std::numeric_limits<I>::max() - 1000.0 : 9.0e15;
        std::vector<R> keep;
        for (R x : out)
            if ((double)x > -0.5 && (double)x < lim) keep.push_back(x);
        out.swap(keep);
        (void)rng;
    }

    void run(vh::Rng & rng, bool thorough)
    {
        if (!vh::selected(name)) return;
        std::vector<R> vals;
        axis_values(vals, rng, thorough);
        R x[N];
        // every catalogue value on every axis, the other axes random catalogue values
        for (std::size_t k = 0; k < N; ++k) {
            for (R a : vals) {
                for (std::size_t j = 0; j < N; ++j) x[j] = vals[rng.below(vals.size())];
                x[k] = a;
                one(x);
            }
        }
        // uniform random in (-0.5, extent - 0.5) for assorted extents
        uint64_t nr = thorough ? 3000000 : 100000;
        for (uint64_t r = 0; r < nr; ++r) {
            for (std::size_t j = 0; j < N; ++j) {
                double ext = std::ldexp(1.0, (int)rng.range(0, sizeof(I) == 4 ? 30 : 44));
                x[j] = (R)(-0.5 + rng.unit() * ext);
                if (!((double)x[j] > -0.5)) x[j] = 0;
            }
            one(x);
        }
        R s[N];
        for (std::size_t j = 0; j < N; ++j) s[j] = vals[3 * (7 + j) + 1];
        vh::sample(name, "x=" + vh::jarr(s, N) + " (one ulp below a half-integer)", 1);
    }
};

// ---------------------------------------------------------------- array-backed
// ORD: the storage order beneath the interpolator -- 0 row-major, 1 Morton (pdep path where the build has BMI2), 2 Morton (shift/or path)
template <typename R, std::size_t N, int ORD = 0>
struct Arr {
    using idx_d = al::alias_t<std::size_t, N>;
    using order_t = std::conditional_t<ORD == 0, cb::strided<idx_d, cb::array<cv::float1>>,
                                       std::conditional_t<ORD == 1, cb::morton<idx_d, cb::array<cv::float1>, true>, cb::morton<idx_d, cb::array<cv::float1>, false>>>;
    using backend_t = cb::nearest_neighbour<order_t, al::alias_t<R, N>>;
    using field_t = covfie::field<backend_t>;
    using strided_t = order_t;

    static void run(vh::Rng & rng, bool thorough)
    {
        std::string name = std::string(ORD == 0 ? "nn<strided<array>>,N=" : ORD == 1 ? "nn<morton<array>,use_bmi2>,N=" : "nn<morton<array>,portable>,N=") + std::to_string(N) + "," + vh::tn<R>() + ">";
        if (!vh::selected(name)) return;
        const R inf = std::numeric_limits<R>::infinity();
        unsigned nf = thorough ? 40 : 8;
        if (ORD != 0) nf = thorough ? 12 : 4;
        for (unsigned fidx = 0; fidx < nf; ++fidx) {
            covfie::utility::nd_size<N> ext;
            uint64_t prod = 1;
            for (std::size_t k = 0; k < N; ++k) {
                ext[k] = 1 + rng.below(N == 1 ? 300 : N == 2 ? 40 : 12);
                if (ORD != 0 && fidx == 0) {
                    // one elongated field per instantiation: axis indices beyond 16 (N = 4), 128 (N = 3), 256 (N <= 2)
                    static const std::size_t big[4][4] = {{1500, 0, 0, 0}, {300, 5, 0, 0}, {2, 130, 3, 0}, {17, 2, 3, 18}};
                    ext[k] = big[N - 1][k];
                }
                prod *= ext[k];
            }
            vh::set_case("%s extents=%s", name.c_str(), vh::jarr(ext, N).c_str());
            uint64_t side = 1, mlen = 1;
            for (std::size_t k = 0; k < N; ++k)
                while (side < ext[k]) side *= 2;
            for (std::size_t k = 0; k < N; ++k) mlen *= side;
            field_t f = [&]() {
                if constexpr (ORD == 0)
                    return field_t(covfie::make_parameter_pack(std::monostate{}, typename strided_t::configuration_t(ext)));
                else
                    return field_t(covfie::make_parameter_pack(std::monostate{}, typename strided_t::configuration_t(ext), covfie::utility::nd_size<1>{mlen}));
            }();
            {
                // unique id per cell, written through the storage-order layer beneath the interpolator
                typename strided_t::non_owning_data_t lv(f.backend().get_backend());
                uint64_t c[N] = {};
                for (uint64_t id = 0;; ++id) {
                    typename strided_t::contravariant_input_t::vector_t cc;
                    uint64_t flat = 0;
                    for (std::size_t k = 0; k < N; ++k) {
                        cc[k] = c[k];
                        flat = flat * ext[k] + c[k];
                    }
                    lv.at(cc)[0] = (float)(flat + 1);
                    std::size_t k = N;
                    while (k > 0 && ++c[k - 1] >= ext[k - 1]) {
                        c[k - 1] = 0;
                        --k;
                    }
                    if (k == 0) break;
                }
            }
            typename field_t::view_t v(f);
            unsigned nq = thorough ? 20000 : 4000;
            for (unsigned q = 0; q < nq; ++q) {
                R x[N];
                typename field_t::coordinate_t c;
                for (std::size_t k = 0; k < N; ++k) {
                    uint64_t cell = rng.below(ext[k]);
                    switch (rng.below(6)) {
                    case 0: x[k] = (R)cell; break;
                    case 1: x[k] = cell + 1 < ext[k] ? (R)cell + (R)0.5 : (R)cell; break;
                    case 2: x[k] = cell + 1 < ext[k] ? std::nextafter((R)cell + (R)0.5, inf) : (R)cell; break;
                    case 3: x[k] = std::nextafter((R)cell + (R)0.5, -inf); break;
                    default: x[k] = (R)(-0.5 + rng.unit() * (double)ext[k]); break;
                    }
                    if (!((double)x[k] > -0.5)) x[k] = 0;
                    if (!((Q)x[k] < (Q)ext[k] - (Q)0.5)) x[k] = (R)(ext[k] - 1);
                    c[k] = x[k];
                }
                float got = v.at(c)[0];
                vh::ev();
                bool nt = false;
                for (std::size_t k = 0; k < N; ++k) nt = nt || near_half_or_wide(x[k]);
                if (nt) vh::nontrivial(vh::fnv(x, sizeof x, vh::fnv(&ext, sizeof ext, vh::fnv(name))));
                // decode the cell the value came from and check every axis
                uint64_t flat = (uint64_t)got - 1;
                bool ok = got >= 1 && (uint64_t)got <= prod;
                uint64_t p[N];
                for (std::size_t k = N; k-- > 0;) {
                    p[k] = flat % ext[k];
                    flat /= ext[k];
                }
                for (std::size_t k = 0; ok && k < N; ++k) ok = fabsq((Q)p[k] - (Q)x[k]) <= (Q)0.5;
                if (!ok) vh::viol(name, "extents=" + vh::jarr(ext, N) + " x0=" + vh::hexfloat((double)x[0]) + " x=" + vh::jarr(x, N) + " returned the value of cell " + vh::jarr(p, N));
            }
        }
    }
};

// ---------------------------------------------------------------- probe-backed: which cell is read?
// The storage records the flat index it is asked for and has no memory behind it, so the extents can be
// 2^26 and the VALUE type arbitrary (the index must not depend on it).
template <typename R, typename VAL, std::size_t N>
static void which_cell(vh::Rng & rng, unsigned nfields, unsigned ncoords)
{
    using order_t = cb::strided<cv::vector_d<std::size_t, N>, probe::flat<cv::vector_d<VAL, 1>>>;
    using backend_t = cb::nearest_neighbour<order_t, al::alias_t<R, N>>;
    using field_t = covfie::field<backend_t>;
    std::string name = std::string("nn<strided<probe<") + vh::tn<VAL>() + ">>>,N=" + std::to_string(N) + "," + vh::tn<R>() + ":cell-read";
    if (!vh::selected(name)) return;
    const R inf = std::numeric_limits<R>::infinity();
    const unsigned maxbits = (sizeof(R) == 4 ? 22u : 40u) / (unsigned)N + (N == 1 ? (sizeof(R) == 4 ? 0u : 0u) : 0u);
    for (unsigned fi = 0; fi < nfields; ++fi) {
        covfie::utility::nd_size<N> ext;
        uint64_t len = 1;
        for (std::size_t k = 0; k < N; ++k) {
            ext[k] = 2 + rng.below(1ull << (1 + rng.below(maxbits)));
            if (fi % 3 == 0 && k == 0) ext[k] = (1ull << maxbits) + 5;   // the largest axis the coordinate type resolves
            len *= ext[k];
        }
        vh::set_case("%s extents=%s", name.c_str(), vh::jarr(ext, N).c_str());
        field_t f(covfie::make_parameter_pack(std::monostate{}, typename order_t::configuration_t(ext), covfie::utility::nd_size<1>{len}));
        probe::FlatLog & log = f.backend().get_backend().get_backend().log();
        typename field_t::view_t v(f);
        for (unsigned q = 0; q < ncoords; ++q) {
            typename field_t::coordinate_t c;
            R x[N];
            for (std::size_t k = 0; k < N; ++k) {
                uint64_t cell = rng.below(ext[k]);
                switch (rng.below(7)) {
                case 0: cell = ext[k] - 1; break;
                case 1: cell = ext[k] > 300 ? 255 + rng.below(4) : cell; break;            // around 2^8
                case 2: cell = ext[k] > 70000 ? 65535 + rng.below(4) : cell; break;        // around 2^16
                case 3: cell = ext[k] > (1ull << 24) + 8 ? (1ull << 24) + rng.below(6) : cell; break;  // beyond float's integers
                default: break;
                }
                R xv;
                switch (rng.below(4)) {
                case 0: xv = (R)cell; break;
                case 1: xv = std::nextafter((R)cell + (R)0.5, -inf); break;
                case 2: xv = std::nextafter((R)cell - (R)0.5, inf); break;
                default: xv = (R)((double)cell + (rng.unit() - 0.5) * 0.98); break;
                }
                if (!((Q)xv > (Q)-0.5)) xv = 0;
                if (!((Q)xv < (Q)ext[k] - (Q)0.5)) xv = (R)(ext[k] - 1);
                x[k] = xv;
                c[k] = xv;
            }
            uint64_t oob0 = log.oob;
            (void)v.at(c);
            uint64_t idx = log.last;
            vh::ev();
            bool nt = false;
            for (std::size_t k = 0; k < N; ++k) nt = nt || near_half_or_wide(x[k]) || x[k] > 255;
            if (nt) vh::nontrivial(vh::fnv(x, sizeof x, vh::fnv(&ext, sizeof ext, vh::fnv(name))));
            // decode the flat index (row-major by the layer's published definition) and test every axis
            bool ok = log.oob == oob0;
            uint64_t p[N], rem = idx;
            for (std::size_t k = N; k-- > 0;) {
                p[k] = rem % ext[k];
                rem /= ext[k];
            }
            for (std::size_t k = 0; ok && k < N; ++k) ok = fabsq((Q)p[k] - (Q)x[k]) <= (Q)0.5;
            if (!ok) {
                vh::viol(name, "extents=" + vh::jarr(ext, N) + " x0=" + vh::hexfloat((double)x[0]) + " x=" + vh::jarr(x, N) + " read flat index " + std::to_string(idx) + " = cell " + vh::jarr(p, N));
                break;
            }
            if (fi == 0 && q == 1) vh::sample(name, "extents=" + vh::jarr(ext, N) + " x=" + vh::jarr(x, N) + " reads cell " + vh::jarr(p, N), 1);
        }
    }
}

int main(int argc, char ** argv)
{
    vh::init(argc, argv);
    bool th = vh::st().thorough;
    vh::Rng rng(vh::st().seed * 32452843 + 4);
    al::alias_table_check();
#if defined(SH_FLOAT)
    Ident<std::size_t, float, 1>().run(rng, th);
    Ident<std::size_t, float, 2>().run(rng, th);
    Ident<std::size_t, float, 3>().run(rng, th);
    Ident<std::size_t, float, 4>().run(rng, th);
    Ident<int, float, 2>().run(rng, th);
    Ident<unsigned, float, 3>().run(rng, th);
    Arr<float, 1>::run(rng, th);
    Arr<float, 2>::run(rng, th);
    Arr<float, 3>::run(rng, th);
    Arr<float, 2, 1>::run(rng, th);
    Arr<float, 4, 2>::run(rng, th);
    which_cell<float, float, 1>(rng, th ? 60 : 12, th ? 4000 : 800);
    which_cell<float, unsigned char, 2>(rng, th ? 60 : 12, th ? 4000 : 800);
    which_cell<float, double, 3>(rng, th ? 60 : 12, th ? 4000 : 800);
#endif
#if defined(SH_DOUBLE)
    Ident<std::size_t, double, 1>().run(rng, th);
    Ident<std::size_t, double, 2>().run(rng, th);
    Ident<std::size_t, double, 3>().run(rng, th);
    Ident<std::size_t, double, 4>().run(rng, th);
    Ident<int, double, 2>().run(rng, th);
    Ident<unsigned, double, 3>().run(rng, th);
    Arr<double, 1>::run(rng, th);
    Arr<double, 2>::run(rng, th);
    Arr<double, 3>::run(rng, th);
    Arr<double, 2, 2>::run(rng, th);
    Arr<double, 3, 1>::run(rng, th);
    Arr<double, 4, 1>::run(rng, th);
    which_cell<double, float, 1>(rng, th ? 60 : 12, th ? 4000 : 800);
    which_cell<double, unsigned char, 1>(rng, th ? 60 : 12, th ? 4000 : 800);
    which_cell<double, short, 2>(rng, th ? 60 : 12, th ? 4000 : 800);
    which_cell<double, double, 3>(rng, th ? 60 : 12, th ? 4000 : 800);
#endif
    return vh::finish();
}
