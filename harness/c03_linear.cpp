// C03: linear interpolation is the N-linear interpolant over the INPUT dimensions.
// One shard = one (N, coordinate type); M, storage type and the layer below vary inside.
#include <memory>
#include <sstream>
#include <cmath>
#include <cstdint>
#include <limits>
#include <variant>
#include <algorithm>
#include <vector>

#include <covfie/core/backend/primitive/array.hpp>
#include <covfie/core/backend/transformer/clamp.hpp>
#include <covfie/core/backend/transformer/linear.hpp>
#include <covfie/core/backend/transformer/morton.hpp>
#include <covfie/core/backend/transformer/strided.hpp>
#include <covfie/core/field.hpp>
#include <covfie/core/field_view.hpp>
#include <covfie/core/utility/numeric.hpp>

#include "interp_ref.hpp"
#include "probes.hpp"
#include "vh.hpp"

#ifndef SH_N
#error "define SH_N"
#endif
#ifndef SH_R
#error "define SH_R"
#endif

namespace cb = covfie::backend;
namespace cv = covfie::vector;
using iref::Q;

enum Layer { STRIDED = 0, MORTON = 1, CLAMP_STRIDED = 2 };
static const char * layer_name[] = {"strided", "morton", "clamp<strided>"};

template <typename R, typename S, std::size_t N, std::size_t M, int L>
struct Lin {
    using idx_d = cv::vector_d<std::size_t, N>;
    using arr_t = cb::array<cv::vector_d<S, M>>;
    using order_t = std::conditional_t<L == MORTON, cb::morton<idx_d, arr_t>, cb::strided<idx_d, arr_t>>;
    using below_t = std::conditional_t<L == CLAMP_STRIDED, cb::clamp<order_t>, order_t>;
    using backend_t = cb::linear<below_t, cv::vector_d<R, N>>;
    using field_t = covfie::field<backend_t>;
    using icoord_t = typename order_t::contravariant_input_t::vector_t;

    static std::string name()
    {
        return std::string("linear<") + layer_name[L] + ",N=" + std::to_string(N) + ",M=" + std::to_string(M) + ",coord=" + vh::tn<R>() + ",store=" + vh::tn<S>() + ">";
    }

    static field_t make(const covfie::utility::nd_size<N> & ext, const uint64_t * bmin, const uint64_t * bmax)
    {
        std::size_t len = 1;
        if constexpr (L == MORTON) {
            std::size_t mx = 0;
            for (std::size_t k = 0; k < N; ++k) mx = ext[k] > mx ? ext[k] : mx;
            std::size_t side = 1;
            while (side < mx) side *= 2;
            for (std::size_t k = 0; k < N; ++k) len *= side;
        } else {
            for (std::size_t k = 0; k < N; ++k) len *= ext[k];
        }
        if constexpr (L == CLAMP_STRIDED) {
            typename below_t::configuration_t box;
            for (std::size_t k = 0; k < N; ++k) {
                box.min[k] = bmin[k];
                box.max[k] = bmax[k];
            }
            return field_t(covfie::make_parameter_pack(std::monostate{}, std::move(box), typename order_t::configuration_t(ext), covfie::utility::nd_size<1>{len}));
        } else {
            return field_t(covfie::make_parameter_pack(std::monostate{}, typename order_t::configuration_t(ext), covfie::utility::nd_size<1>{len}));
        }
    }

    static const typename order_t::owning_data_t & order_of(const field_t & f)
    {
        if constexpr (L == CLAMP_STRIDED)
            return f.backend().get_backend().get_backend();
        else
            return f.backend().get_backend();
    }

    static void run(vh::Rng & rng, unsigned nfields, unsigned ncoords)
    {
        const std::string nm = name();
        if (!vh::selected(nm)) return;
        const R inf = std::numeric_limits<R>::infinity();
        const int emax = (sizeof(R) == 4 || sizeof(S) == 4) ? 100 : 900;
        for (unsigned fi = 0; fi < nfields; ++fi) {
            covfie::utility::nd_size<N> ext;
            for (std::size_t k = 0; k < N; ++k) ext[k] = 2 + rng.below(N <= 2 ? 9 : N == 3 ? 5 : 3);
            if (fi == 0)
                for (std::size_t k = 0; k < N; ++k) ext[k] = 2;  // a single cell
            const bool onehot = fi % 3 == 1;
            // every component constant over the whole field (a uniform field: non-power-of-two values, so that the
            // weights' rounding errors do not cancel): the interpolant is that constant everywhere
            const bool flat = fi % 6 == 3 || (nfields <= 3 && fi == 2);
            static const double flatv[] = {5.0, 0.1, -7.3, 1.0 / 3.0, 1000.1, -2.7e-3, 3.0, 0.7};
            const unsigned flat0 = (unsigned)rng.below(8);
            vh::set_case("%s field#%u extents=%s fill", nm.c_str(), fi, vh::jarr(ext, N).c_str());
            // the box of the clamp layer beneath the interpolator: the whole grid, or (every second field) a sub-box of it
            uint64_t bmin[N], bmax[N];
            for (std::size_t k = 0; k < N; ++k) {
                bmin[k] = 0;
                bmax[k] = ext[k] - 1;
                if (L == CLAMP_STRIDED && (fi & 1)) {
                    bmin[k] = rng.below(ext[k]);
                    bmax[k] = bmin[k] + rng.below(ext[k] - bmin[k]);
                }
            }
            field_t f = make(ext, bmin, bmax);
            typename order_t::non_owning_data_t raw(order_of(f));
            // fill every lattice cell through the storage-order layer's own view
            uint64_t ncells = 1;
            for (std::size_t k = 0; k < N; ++k) ncells *= ext[k];
            uint64_t hot = rng.below(ncells), cell = 0;
            {
                uint64_t c[N] = {};
                for (;; ++cell) {
                    icoord_t cc;
                    for (std::size_t k = 0; k < N; ++k) cc[k] = c[k];
                    for (std::size_t j = 0; j < M; ++j) {
                        S v;
                        if (flat)
                            v = (S)flatv[(flat0 + j) % 8];
                        else if (onehot)
                            v = (cell == (hot + j) % ncells) ? (S)1 : (S)0;
                        else {
                            int e = (int)rng.range(rng.below(4) ? -20 : -emax, rng.below(4) ? 20 : emax);
                            v = (S)std::ldexp(1.0 + rng.unit(), e);
                            if (rng.coin()) v = -v;
                            if (rng.below(16) == 0) v = 0;
                        }
                        raw.at(cc)[j] = v;
                    }
                    std::size_t k = 0;
                    while (k < N && ++c[k] >= ext[k]) c[k++] = 0;
                    if (k == N) break;
                }
            }
            // every fourth field is interpolated after a trip through its own dump: the oracle keeps reading the
            // lattice values of the ORIGINAL (stored values and every configuration survive the trip exactly)
            std::unique_ptr<field_t> reloaded;
            if (fi % 4 == 2) {
                vh::set_case("%s field#%u extents=%s dump/reload", nm.c_str(), fi, vh::jarr(ext, N).c_str());
                std::stringstream ss(std::ios::in | std::ios::out | std::ios::binary);
                f.dump(ss);
                reloaded = std::make_unique<field_t>(static_cast<std::istream &>(ss));
                vh::stat("fields_interpolated_after_dump_and_reload");
            }
            // ... and every fourth one after being copy-assigned over a field of the same type with other extents
            // (larger for even, smaller for odd field numbers) holding other values
            if (fi % 4 == 1) {
                vh::set_case("%s field#%u extents=%s copy-assigned over another field", nm.c_str(), fi, vh::jarr(ext, N).c_str());
                covfie::utility::nd_size<N> ext2;
                uint64_t b2min[N], b2max[N];
                for (std::size_t k = 0; k < N; ++k) {
                    ext2[k] = (fi & 2) ? ext[k] + 1 + k % 2 : (ext[k] > 2 ? ext[k] - 1 : 2);
                    b2min[k] = 0;
                    b2max[k] = ext2[k] - 1;
                }
                reloaded = std::make_unique<field_t>(make(ext2, b2min, b2max));
                {
                    typename order_t::non_owning_data_t raw2(order_of(*reloaded));
                    icoord_t z;
                    for (std::size_t k = 0; k < N; ++k) z[k] = 0;
                    for (std::size_t j = 0; j < M; ++j) raw2.at(z)[j] = (S)-12345;
                }
                *reloaded = f;
                vh::stat("fields_interpolated_after_copy_assignment_over_another");
            }
            typename field_t::view_t view(reloaded ? *reloaded : f);
            for (unsigned q = 0; q < ncoords; ++q) {
                R x[N];
                typename field_t::coordinate_t c;
                bool interior = false, lattice = true;
                uint64_t base[N];
                Q frac[N];
                for (std::size_t k = 0; k < N; ++k) {
                    const uint64_t cells = ext[k] - 1;  // >= 1
                    uint64_t i = rng.below(cells);
                    R v;
                    switch (rng.below(9)) {
                    case 0: v = (R)i; break;                                       // lattice point
                    case 1: v = (R)i + (R)0.5; break;                              // cell centre
                    case 2: v = std::nextafter((R)(i + 1), -inf); break;           // just below the next lattice point
                    case 3: v = std::nextafter((R)i, inf); break;                  // just above a lattice point
                    case 4: v = std::nextafter((R)cells, -inf); break;             // top of the last cell
                    case 5: v = (R)(cells - 1) + (R)rng.unit(); break;             // last cell
                    case 6: v = (R)i + (R)0.25 * (R)rng.below(4); break;           // dyadic
                    default: v = (R)((double)i + rng.unit()); break;
                    }
                    if (L == CLAMP_STRIDED && rng.below(4) == 0) {
                        // beyond the grid: the clamp beneath makes it safe (bounded so the index conversion is defined)
                        static const double far[] = {4294967296.0, 4294967297.0, 17179869184.0, 1.0e17, 1.0e18, 4611686018427387904.0, 9.0e18};
                        switch (rng.below(4)) {
                        case 0: v = (R)((double)cells + rng.unit() * 3.0); break;
                        case 1: v = (R)((double)cells + rng.unit() * 4.0e9); break;
                        case 2: v = (R)far[rng.below(7)]; break;
                        default: v = (R)(far[rng.below(5)] + (double)rng.below(cells + 1)); break;  // k*2^32 + small: wraps into the grid in 32 bits
                        }
                    }
                    if (!(v >= 0)) v = 0;
                    if (L != CLAMP_STRIDED && !((Q)v < (Q)cells)) v = std::nextafter((R)cells, -inf);
                    x[k] = v;
                    c[k] = v;
                    Q fl = floorq((Q)v);
                    base[k] = (uint64_t)fl;
                    frac[k] = (Q)v - fl;
                    interior = interior || frac[k] != 0;
                    lattice = lattice && frac[k] == 0;
                }
                vh::set_case("%s field#%u extents=%s x0=%a q=%u", nm.c_str(), fi, vh::jarr(ext, N).c_str(), (double)x[0], q);
                typename field_t::output_t got = view.at(c);
                if (q % 64 == 0) {
                    // variadic form must agree
                    typename field_t::output_t g2;
                    if constexpr (N == 1) g2 = view.at(c[0]);
                    else if constexpr (N == 2) g2 = view.at(c[0], c[1]);
                    else if constexpr (N == 3) g2 = view.at(c[0], c[1], c[2]);
                    else if constexpr (N == 4) g2 = view.at(c[0], c[1], c[2], c[3]);
                    else g2 = view.at(c[0], c[1], c[2], c[3], c[4]);
                    for (std::size_t j = 0; j < M; ++j)
                        if (!(g2[j] == got[j]) && !(g2[j] != g2[j] && got[j] != got[j])) vh::viol(nm + ":at-forms-differ", "x=" + vh::jarr(x, N));
                }
                if (interior) {
                    uint64_t h = vh::fnv(nm);
                    h = vh::mix(h, fi);
                    vh::nontrivial(vh::fnv(base, sizeof base, h));
                }
                for (std::size_t j = 0; j < M; ++j) {
                    iref::Result r = iref::nlinear(N, frac, [&](uint64_t bits) -> Q {
                        icoord_t cc;
                        for (std::size_t k = 0; k < N; ++k) {
                            uint64_t i = base[k] + ((bits >> k) & 1);
                            if (L == CLAMP_STRIDED) i = i < bmin[k] ? bmin[k] : (i > bmax[k] ? bmax[k] : i);
                            cc[k] = i;
                        }
                        return (Q)raw.at(cc)[j];
                    });
                    Q g = (Q)got[j];
                    vh::ev();
                    Q bnd = iref::bound<R, S>(N, r.absum, r.vsum);
                    Q err = fabsq(g - r.exact);
                    std::string why;
                    if (lattice) {
                        // exact: the stored value converted to the coordinate type, then to the output type
                        icoord_t cc;
                        for (std::size_t k = 0; k < N; ++k) cc[k] = base[k] < bmin[k] ? bmin[k] : (base[k] > bmax[k] ? bmax[k] : base[k]);
                        S want = (S)(R)raw.at(cc)[j];
                        if (!(got[j] == want)) why = "lattice point: got " + iref::qs(g) + " stored " + iref::qs((Q)want);
                    }
                    if (why.empty() && !(err <= bnd)) why = "got " + iref::qs(g) + " exact " + iref::qs(r.exact) + " err " + iref::qs(err) + " bound " + iref::qs(bnd);
                    if (why.empty() && !(g >= r.vmin - bnd && g <= r.vmax + bnd)) why = "got " + iref::qs(g) + " outside corner range [" + iref::qs(r.vmin) + "," + iref::qs(r.vmax) + "]";
                    if (!why.empty()) {
                        vh::viol(nm, "extents=" + vh::jarr(ext, N) + " x=" + vh::jarr(x, N) + " (x0=" + vh::hexfloat((double)x[0]) + ") component " + std::to_string(j) + (onehot ? " one-hot field: " : ": ") + why);
                        break;
                    }
                    if (r.absum > 0 && !lattice) vh::maxstat("max_err_permille_of_bound", (uint64_t)(1000 * (double)(err / bnd)));
                }
                if (fi == 2 && q == 3) vh::sample(nm, "extents=" + vh::jarr(ext, N) + " x=" + vh::jarr(x, N) + " -> component0=" + iref::qs((Q)got[0]), 1);
            }
            if (flat) {
                // many more lookups on the uniform field, against the closed-form answer (the constant itself, to within
                // a few roundings of the narrower of the two types): rare rounding patterns of the weight products
                const unsigned extra = vh::st().thorough ? 400000 : 60000;
                const Q eps = (Q)std::max((double)std::numeric_limits<R>::epsilon(), (double)std::numeric_limits<S>::epsilon());
                for (unsigned q = 0; q < extra; ++q) {
                    typename field_t::coordinate_t c;
                    for (std::size_t k = 0; k < N; ++k) {
                        R v = (R)(rng.unit() * (double)(ext[k] - 1));
                        if (!((Q)v < (Q)(ext[k] - 1))) v = std::nextafter((R)(ext[k] - 1), -inf);
                        c[k] = v;
                    }
                    if (q % 4096 == 0) vh::set_case("%s field#%u extents=%s uniform field, lookup %u x0=%a", nm.c_str(), fi, vh::jarr(ext, N).c_str(), q, (double)c[0]);
                    typename field_t::output_t got = view.at(c);
                    vh::ev();
                    for (std::size_t j = 0; j < M; ++j) {
                        const Q want = (Q)(S)flatv[(flat0 + j) % 8];
                        if (!(fabsq((Q)got[j] - want) <= 64 * eps * fabsq(want))) {
                            vh::viol(nm + ":uniform-field", "extents=" + vh::jarr(ext, N) + " x0=" + vh::hexfloat((double)c[0]) + " component " + std::to_string(j) + ": got " + iref::qs((Q)got[j]) + " on a field that is " + iref::qs(want) + " everywhere");
                            q = extra;
                            break;
                        }
                    }
                }
                vh::stat("uniform_field_lookups", extra);
            }
        }
    }
};

// Which cells does the interpolator READ?  Over an index-recording probe storage (no memory behind it)
// the extents can be 2^20 per axis: the 2^N flat indices asked for must be exactly those of the cell
// containing x.  This pins the neighbour enumeration at coordinates far beyond any array-backed field.
template <typename R, std::size_t N>
static void which_cells(vh::Rng & rng, unsigned nfields, unsigned ncoords)
{
    using idx_d = cv::vector_d<std::size_t, N>;
    using order_t = cb::strided<idx_d, probe::flat<cv::float1>>;
    using backend_t = cb::linear<order_t, cv::vector_d<R, N>>;
    using field_t = covfie::field<backend_t>;
    const std::string nm = std::string("linear<strided<probe>>,N=") + std::to_string(N) + ",coord=" + vh::tn<R>() + ":cells-read";
    if (!vh::selected(nm)) return;
    for (unsigned fi = 0; fi < nfields; ++fi) {
        covfie::utility::nd_size<N> ext;
        uint64_t len = 1;
        const unsigned per = 60 / N > 20 ? 20 : 60 / N;
        for (std::size_t k = 0; k < N; ++k) {
            ext[k] = 2 + rng.below(1ull << rng.below(per + 1));
            len *= ext[k];
        }
        vh::set_case("%s extents=%s", nm.c_str(), vh::jarr(ext, N).c_str());
        field_t f(covfie::make_parameter_pack(std::monostate{}, typename order_t::configuration_t(ext), covfie::utility::nd_size<1>{len}));
        probe::FlatLog & log = f.backend().get_backend().get_backend().log();
        typename field_t::view_t view(f);
        for (unsigned q = 0; q < ncoords; ++q) {
            typename field_t::coordinate_t c;
            uint64_t base[N];
            for (std::size_t k = 0; k < N; ++k) {
                uint64_t cells = ext[k] - 1, i = rng.below(cells);
                if (rng.below(4) == 0) i = cells - 1;
                if (rng.below(8) == 0) i = 0;
                R v = (R)((double)i + (rng.below(3) ? rng.unit() : 0.0));
                if (!((iref::Q)v < (iref::Q)cells)) v = std::nextafter((R)cells, (R)0);
                c[k] = v;
                base[k] = (uint64_t)floorq((iref::Q)v);
            }
            uint64_t q0 = log.queries, oob0 = log.oob;
            (void)view.at(c);
            vh::ev();
            vh::nontrivial(vh::fnv(base, sizeof base, vh::fnv(&ext, sizeof ext, vh::fnv(nm))));
            std::string d = "extents=" + vh::jarr(ext, N) + " x=" + vh::jarr(c, N);
            if (log.oob != oob0) {
                vh::viol(nm, d + ": read flat index " + std::to_string(log.first_oob) + " outside the field");
                break;
            }
            uint64_t nread = log.queries - q0;
            if (nread != (1ull << N)) {
                vh::viol(nm, d + ": " + std::to_string(nread) + " cells read, expected " + std::to_string(1ull << N));
                break;
            }
            std::vector<uint64_t> got, want;
            for (uint64_t r = 0; r < nread; ++r) got.push_back(log.ring[(q0 + r) % 64]);
            for (uint64_t bits = 0; bits < (1ull << N); ++bits) {
                unsigned __int128 idx = 0;
                for (std::size_t k = 0; k < N; ++k) {
                    unsigned __int128 t = base[k] + ((bits >> k) & 1);
                    for (std::size_t l = k + 1; l < N; ++l) t *= ext[l];
                    idx += t;
                }
                want.push_back((uint64_t)idx);
            }
            std::sort(got.begin(), got.end());
            std::sort(want.begin(), want.end());
            if (got != want) {
                vh::viol(nm, d + ": read flat indices {" + vh::join(got) + "}, the cell containing x is {" + vh::join(want) + "}");
                break;
            }
            if (fi == 1 && q == 0) vh::sample(nm, d + " reads {" + vh::join(got) + "}", 1);
        }
    }
}

template <typename R, std::size_t N, std::size_t M>
static void for_m(vh::Rng & rng, unsigned nf, unsigned nc)
{
#if defined(SH_FULL)
    Lin<R, float, N, M, STRIDED>::run(rng, nf, nc);
    Lin<R, double, N, M, STRIDED>::run(rng, nf, nc);
    Lin<R, float, N, M, MORTON>::run(rng, nf, nc);
    Lin<R, double, N, M, MORTON>::run(rng, nf, nc);
    Lin<R, float, N, M, CLAMP_STRIDED>::run(rng, nf, nc);
    Lin<R, double, N, M, CLAMP_STRIDED>::run(rng, nf, nc);
#else
    // quick: three of the six, rotating with (N + M) so that every storage type and layer meets every N and M
    constexpr unsigned r = (N + M + (sizeof(R) == 8)) % 2;
    Lin<R, std::conditional_t<r == 0, float, double>, N, M, STRIDED>::run(rng, nf, nc);
    Lin<R, std::conditional_t<r == 0, double, float>, N, M, MORTON>::run(rng, nf, nc);
    Lin<R, std::conditional_t<(N + M) % 3 == 0, double, float>, N, M, CLAMP_STRIDED>::run(rng, nf, nc);
#endif
}

int main(int argc, char ** argv)
{
    vh::init(argc, argv);
    vh::Rng rng(vh::st().seed * 86028121 + 3 + SH_N * 17 + sizeof(SH_R));
    bool th = vh::st().thorough;
    unsigned nf = th ? 24 : 9, nc = th ? 4000 : 500;
#if !defined(SH_M) || SH_M == 1
    for_m<SH_R, SH_N, 1>(rng, nf, nc);
    which_cells<SH_R, SH_N>(rng, th ? 200 : 30, th ? 2000 : 300);
#endif
#if !defined(SH_M) || SH_M == 2
    for_m<SH_R, SH_N, 2>(rng, nf, nc);
#endif
#if !defined(SH_M) || SH_M == 3
    for_m<SH_R, SH_N, 3>(rng, nf, nc);
#endif
#if !defined(SH_M) || SH_M == 4
    for_m<SH_R, SH_N, 4>(rng, nf, nc);
#endif
    return vh::finish();
}
