// C05: changing representation preserves the field.
// One shard = one SOURCE storage order (SH_SRC); targets vary inside.
#include <cmath>
#include <cstdint>
#include <limits>
#include <variant>
#include <vector>

#include <covfie/core/backend/primitive/array.hpp>
#include <covfie/core/backend/transformer/affine.hpp>
#include <covfie/core/backend/transformer/hilbert.hpp>
#include <covfie/core/backend/transformer/linear.hpp>
#include <covfie/core/backend/transformer/morton.hpp>
#include <covfie/core/backend/transformer/nearest_neighbour.hpp>
#include <covfie/core/backend/transformer/strided.hpp>
#include <covfie/core/field.hpp>
#include <covfie/core/field_view.hpp>
#if defined(SH_CUDA)
#include <covfie/cuda/backend/primitive/cuda_device_array.hpp>
#endif

#include "storage_common.hpp"
#include "vh.hpp"

namespace cb = covfie::backend;
namespace cv = covfie::vector;

enum { L_STRIDED = 0, L_MORTON_T = 1, L_MORTON_F = 2, L_HILBERT = 3 };
static const char * lname[] = {"strided", "morton<bmi2>", "morton<portable>", "hilbert"};

template <int L, typename IDX, typename STORE>
struct layer_of;
template <typename IDX, typename STORE>
struct layer_of<L_STRIDED, IDX, STORE> {
    using type = cb::strided<IDX, STORE>;
};
template <typename IDX, typename STORE>
struct layer_of<L_MORTON_T, IDX, STORE> {
    using type = cb::morton<IDX, STORE, true>;
};
template <typename IDX, typename STORE>
struct layer_of<L_MORTON_F, IDX, STORE> {
    using type = cb::morton<IDX, STORE, false>;
};
template <typename IDX, typename STORE>
struct layer_of<L_HILBERT, IDX, STORE> {
    using type = cb::hilbert<IDX, STORE>;
};

template <int L, std::size_t N>
static uint64_t storage_len(const sc::ext_t<N> & e)
{
    return L == L_STRIDED ? sc::cells<N>(e) : sc::curve_len<N>(e);
}

// some cells hold values that a value-preserving copy must carry over unchanged but a careless one loses: NaN, negative
// zero, an infinity (a measured map with holes)
template <typename S>
static S special_or(uint64_t k, S ordinary)
{
    if constexpr (std::is_floating_point_v<S>) {
        if (k % 9 == 4) return std::numeric_limits<S>::quiet_NaN();
        if (k % 9 == 7) return (S)-0.0;
        if (k % 11 == 5) return -std::numeric_limits<S>::infinity();
        if (k % 13 == 8) return (S)0.0;
    }
    return ordinary;
}
template <typename A, typename B>
static bool same_value(A a, B b)
{
    if (a != a || b != b) return a != a && b != b;
    return a == b && std::signbit(a) == std::signbit(b);
}

// fill through the view with a unique id per cell component; returns the model
template <typename F, std::size_t N, typename S, std::size_t M>
static std::vector<S> fill(F & f, const sc::ext_t<N> & e, uint64_t id0)
{
    typename F::view_t v(f);
    std::vector<S> model(sc::cells<N>(e) * M);
    uint64_t c[N] = {};
    do {
        typename F::coordinate_t cc;
        for (std::size_t k = 0; k < N; ++k) cc[k] = c[k];
        uint64_t p = sc::model_pos<N>(c, e);
        for (std::size_t j = 0; j < M; ++j) {
            S val = special_or<S>(p * M + j, (S)(id0 + p * M + j));
            v.at(cc)[j] = val;
            model[p * M + j] = val;
        }
    } while (sc::next_coord<N>(c, e));
    return model;
}

// compare every lattice value of f with the model; returns "" or a description
template <typename F, std::size_t N, typename S, std::size_t M>
static std::string differs(const F & f, const sc::ext_t<N> & e, const std::vector<S> & model)
{
    typename F::view_t v(f);
    uint64_t c[N] = {};
    do {
        typename F::coordinate_t cc;
        for (std::size_t k = 0; k < N; ++k) cc[k] = c[k];
        uint64_t p = sc::model_pos<N>(c, e);
        for (std::size_t j = 0; j < M; ++j) {
            vh::ev();
            if (!same_value(v.at(cc)[j], model[p * M + j]))
                return "c=" + vh::jarr(c, N) + " component " + std::to_string(j) + " holds " + std::to_string((double)v.at(cc)[j]) + ", source holds " + std::to_string((double)model[p * M + j]);
        }
    } while (sc::next_coord<N>(c, e));
    return "";
}

template <typename A, typename B, std::size_t N>
static bool same_extents(const A & a, const B & b)
{
    for (std::size_t k = 0; k < N; ++k)
        if (a[k] != b[k]) return false;
    return true;
}

// ST: scalar type the TARGET stores (differs from S for the cross-precision conversions; every value written is a
// small integer, exact in both)
template <int LA, int LB, std::size_t N, typename S, std::size_t M, typename IDX = std::size_t, typename ST = S>
struct Conv {
    using idx_d = cv::vector_d<IDX, N>;
    using store_t = cb::array<cv::vector_d<S, M>>;
    using store_b = cb::array<cv::vector_d<ST, M>>;
    using A = typename layer_of<LA, idx_d, store_t>::type;
    using Bk = typename layer_of<LB, idx_d, store_b>::type;
    using FA = covfie::field<A>;
    using FB = covfie::field<Bk>;

    // a few elongated extent vectors (one axis far longer than the exhaustive bound): narrow coordinate types
    // lose high coordinate bits long before size_t does
    static void run_listed(vh::Rng & rng)
    {
        static const std::size_t L2[][2] = {{3, 300}, {260, 2}, {70, 5}, {1, 1025}};
        static const std::size_t L3[][3] = {{3, 70, 2}, {2, 2, 70}, {66, 1, 3}, {5, 3, 68}};
        const std::size_t n = 4;
        for (std::size_t i = 0; i < n; ++i) {
            sc::ext_t<N> e;
            for (std::size_t k = 0; k < N; ++k) e[k] = N == 2 ? L2[i][k] : L3[i][k % 3];
            one(e, rng, true);
        }
    }
    static void run(std::size_t Bnd, vh::Rng & rng)
    {
        sc::ext_t<N> e;
        for (std::size_t k = 0; k < N; ++k) e[k] = 1;
        do {
            one(e, rng, false);
        } while (sc::next_ext<N>(e, Bnd));
    }
    // extents far beyond the exhaustive bound: padded curve sides of 1024, 2048, 4096 (N = 1, 2 only; float1 cells)
    static void run_large(vh::Rng & rng)
    {
        static_assert(N <= 2);
        static const std::size_t G1[] = {513, 600, 777, 1023, 1025, 2049, 4097};
        static const std::size_t G2[][2] = {{513, 2}, {3, 600}, {1025, 1}, {2, 1027}, {520, 3}, {31, 33}, {1, 2049}};
        const std::size_t n = N == 1 ? sizeof G1 / sizeof G1[0] : sizeof G2 / sizeof G2[0];
        for (std::size_t i = 0; i < n; ++i) {
            sc::ext_t<N> e;
            for (std::size_t k = 0; k < N; ++k) e[k] = N == 1 ? G1[i] : G2[i][k % 2];
            one(e, rng, true);
        }
    }
    static void one(const sc::ext_t<N> & e, vh::Rng & rng, bool listed)
    {
        const std::string nm = std::string(lname[LA]) + "->" + lname[LB] + ",N=" + std::to_string(N) + ",array<" + vh::tn<S>() + "," + std::to_string(M) + ">" + (std::is_same_v<IDX, std::size_t> ? "" : std::string(",idx=") + vh::tn<IDX>()) + (std::is_same_v<S, ST> ? "" : std::string(",target stores ") + vh::tn<ST>());
        if (!vh::selected(nm)) return;
        (void)listed;
        // the row-major layer accumulates the flat index in the coordinate type: a field with more cells than that
        // type can count is outside the domain (stated in C01/C14 as well)
        if (sizeof(IDX) < 8 && sc::cells<N>(e) > (uint64_t)std::numeric_limits<IDX>::max()) return;
        {
            vh::set_case("%s extents=%s", nm.c_str(), sc::show<N>(e).c_str());
            const std::string d = "extents=" + sc::show<N>(e) + " ";
            FA a(covfie::make_parameter_pack(typename A::configuration_t(e), covfie::utility::nd_size<1>{storage_len<LA, N>(e)}));
            std::vector<S> model = fill<FA, N, S, M>(a, e, 1 + rng.below(100000));
            // copying conversion
            FB b(a);
            if (!same_extents<decltype(b.backend().get_configuration()), sc::ext_t<N>, N>(b.backend().get_configuration(), e))
                vh::viol(nm + ":configuration", d + "converted field reports extents " + vh::jarr(b.backend().get_configuration(), N));
            std::string w = differs<FB, N, S, M>(b, e, model);
            if (!w.empty()) vh::viol(nm + ":values", d + w);
            // (how much storage the target allocates is not asserted here: any amount that covers the largest
            //  curve position is correct; C18 checks exactly that bound and ASan watches every access)
            w = differs<FA, N, S, M>(a, e, model);
            if (!w.empty()) vh::viol(nm + ":source-changed", d + w);
            // writes to the copy must not show in the source
            {
                typename FB::view_t vb(b);
                typename FB::coordinate_t cc;
                for (std::size_t k = 0; k < N; ++k) cc[k] = rng.below(e[k]);
                vb.at(cc)[0] = (ST)-1;
                w = differs<FA, N, S, M>(a, e, model);
                if (!w.empty()) vh::viol(nm + ":shares-storage-with-source", d + w);
            }
            // round trip (from a fresh conversion)
            FB b2(a);
            FA a2(b2);
            if (!same_extents<decltype(a2.backend().get_configuration()), sc::ext_t<N>, N>(a2.backend().get_configuration(), e))
                vh::viol(nm + ":roundtrip-configuration", d + "round trip reports extents " + vh::jarr(a2.backend().get_configuration(), N));
            w = differs<FA, N, S, M>(a2, e, model);
            if (!w.empty()) vh::viol(nm + ":roundtrip-values", d + w);
            // move conversion
            FA tmp(a);
            FB b3(std::move(tmp));
            w = differs<FB, N, S, M>(b3, e, model);
            if (!w.empty()) vh::viol(nm + ":move-conversion-values", d + w);
            w = differs<FA, N, S, M>(a, e, model);
            if (!w.empty()) vh::viol(nm + ":move-conversion-changed-original", d + w);
            if (LA != LB && !sc::trivial_ext<N>(e)) {
                vh::nontrivial(vh::fnv(&e, sizeof e, vh::fnv(nm)));
                if (sc::cells<N>(e) > 8) vh::sample(nm, d + "cells=" + std::to_string(sc::cells<N>(e)) + " source storage=" + std::to_string(storage_len<LA, N>(e)) + " target storage=" + std::to_string(storage_len<LB, N>(e)), 1);
            }
        }
    }
};

// whole-stack conversion affine<I1<L1<array>>> -> affine<I2<L2<array>>>
// MOVE: the conversion consumes an rvalue source (field<B> b(std::move(a))) instead of copying from an lvalue
template <int LA, int LB, bool LIN_A, bool LIN_B, std::size_t N, typename S, std::size_t M, typename ST = S, bool MOVE = false>
struct Stack {
    using idx_d = cv::vector_d<std::size_t, N>;
    using real_d = cv::vector_d<float, N>;
    using store_t = cb::array<cv::vector_d<S, M>>;
    using store_b = cb::array<cv::vector_d<ST, M>>;
    using OA = typename layer_of<LA, idx_d, store_t>::type;
    using OB = typename layer_of<LB, idx_d, store_b>::type;
    using IA = std::conditional_t<LIN_A, cb::linear<OA, real_d>, cb::nearest_neighbour<OA, real_d>>;
    using IB = std::conditional_t<LIN_B, cb::linear<OB, real_d>, cb::nearest_neighbour<OB, real_d>>;
    using A = cb::affine<IA>;
    using Bk = cb::affine<IB>;
    using FA = covfie::field<A>;
    using FB = covfie::field<Bk>;

    static void run(std::size_t Bnd, vh::Rng & rng, unsigned stride)
    {
        const std::string nm = std::string("affine<") + (LIN_A ? "linear<" : "nn<") + lname[LA] + ">>->affine<" + (LIN_B ? "linear<" : "nn<") + lname[LB] + ">>,N=" + std::to_string(N) + ",array<" + vh::tn<S>() + "," + std::to_string(M) + ">" + (std::is_same_v<S, ST> ? "" : std::string(",target stores ") + vh::tn<ST>()) + (MOVE ? ",from an rvalue" : "");
        if (!vh::selected(nm)) return;
        sc::ext_t<N> e;
        for (std::size_t k = 0; k < N; ++k) e[k] = 1;
        unsigned n = 0;
        do {
            if (n++ % stride) continue;
            vh::set_case("%s extents=%s", nm.c_str(), sc::show<N>(e).c_str());
            const std::string d = "extents=" + sc::show<N>(e) + " ";
            // a non-trivial transform as configuration (values irrelevant to the lattice comparison below the affine layer)
            typename A::configuration_t T = A::matrix_t::identity();
            for (std::size_t i = 0; i < N; ++i)
                for (std::size_t j = 0; j <= N; ++j) T(i, j) = (float)rng.range(-9, 9);
            FA a(covfie::make_parameter_pack(typename A::configuration_t(T), std::monostate{}, typename OA::configuration_t(e), covfie::utility::nd_size<1>{storage_len<LA, N>(e)}));
            // fill through the storage-order layer at the bottom of the source stack
            typename OA::non_owning_data_t rawA(a.backend().get_backend().get_backend());
            std::vector<S> model(sc::cells<N>(e) * M);
            uint64_t id0 = 1 + rng.below(1000), c[N] = {};
            do {
                typename OA::contravariant_input_t::vector_t cc;
                for (std::size_t k = 0; k < N; ++k) cc[k] = c[k];
                uint64_t p = sc::model_pos<N>(c, e);
                for (std::size_t j = 0; j < M; ++j) rawA.at(cc)[j] = model[p * M + j] = (S)(id0 + p * M + j);
            } while (sc::next_coord<N>(c, e));
            FA a_src(a);
            FB b = MOVE ? FB(std::move(a_src)) : FB(a);
            // configuration at every layer
            auto Tb = b.backend().get_configuration();
            bool same = true;
            for (std::size_t i = 0; i < N; ++i)
                for (std::size_t j = 0; j <= N; ++j) same = same && Tb(i, j) == T(i, j);
            if (!same) vh::viol(nm + ":affine-configuration", d + "transform changed by the conversion");
            if (!same_extents<decltype(b.backend().get_backend().get_backend().get_configuration()), sc::ext_t<N>, N>(b.backend().get_backend().get_backend().get_configuration(), e))
                vh::viol(nm + ":extents", d + "converted stack reports extents " + vh::jarr(b.backend().get_backend().get_backend().get_configuration(), N));
            // every lattice value at the raw storage-order level
            typename OB::non_owning_data_t rawB(b.backend().get_backend().get_backend());
            for (std::size_t k = 0; k < N; ++k) c[k] = 0;
            do {
                typename OB::contravariant_input_t::vector_t cc;
                for (std::size_t k = 0; k < N; ++k) cc[k] = c[k];
                uint64_t p = sc::model_pos<N>(c, e);
                for (std::size_t j = 0; j < M; ++j) {
                    vh::ev();
                    if (!(rawB.at(cc)[j] == model[p * M + j])) {
                        vh::viol(nm + ":values", d + "c=" + vh::jarr(c, N) + " component " + std::to_string(j));
                        goto next;
                    }
                }
            } while (sc::next_coord<N>(c, e));
            {
                // through the whole stack with the identity transform: lattice coordinates (interior ones for linear)
                FA ai(covfie::make_parameter_pack(typename A::configuration_t(A::matrix_t::identity()), std::monostate{}, typename OA::configuration_t(e), covfie::utility::nd_size<1>{storage_len<LA, N>(e)}));
                typename OA::non_owning_data_t rawAi(ai.backend().get_backend().get_backend());
                for (std::size_t k = 0; k < N; ++k) c[k] = 0;
                do {
                    typename OA::contravariant_input_t::vector_t cc;
                    for (std::size_t k = 0; k < N; ++k) cc[k] = c[k];
                    uint64_t p = sc::model_pos<N>(c, e);
                    for (std::size_t j = 0; j < M; ++j) rawAi.at(cc)[j] = model[p * M + j];
                } while (sc::next_coord<N>(c, e));
                FB bi = MOVE ? FB(std::move(ai)) : FB(ai);
                typename FB::view_t vb(bi);
                for (std::size_t k = 0; k < N; ++k) c[k] = 0;
                do {
                    bool ok = true;
                    typename FB::coordinate_t x;
                    for (std::size_t k = 0; k < N; ++k) {
                        x[k] = (float)c[k];
                        if (LIN_B && c[k] + 1 >= e[k]) ok = false;
                    }
                    if (!ok) continue;
                    auto got = vb.at(x);
                    uint64_t p = sc::model_pos<N>(c, e);
                    for (std::size_t j = 0; j < M; ++j) {
                        vh::ev();
                        if (!(got[j] == model[p * M + j])) {
                            vh::viol(nm + ":lookup", d + "x=" + vh::jarr(c, N) + " component " + std::to_string(j) + " got " + std::to_string((double)got[j]) + " want " + std::to_string((double)model[p * M + j]));
                            goto next;
                        }
                    }
                } while (sc::next_coord<N>(c, e));
            }
        next:
            if (!sc::trivial_ext<N>(e)) vh::nontrivial(vh::fnv(&e, sizeof e, vh::fnv(nm)));
        } while (sc::next_ext<N>(e, Bnd));
    }
};

#if defined(SH_CUDA)
template <int LA, int LB, std::size_t N, typename S, std::size_t M>
static void to_device(std::size_t Bnd, vh::Rng & rng)
{
    using idx_d = cv::vector_d<std::size_t, N>;
    using A = typename layer_of<LA, idx_d, cb::array<cv::vector_d<S, M>>>::type;
    using D = typename layer_of<LB, idx_d, cb::cuda_device_array<cv::vector_d<S, M>>>::type;
    using FA = covfie::field<A>;
    using FD = covfie::field<D>;
    const std::string nm = std::string(lname[LA]) + "<array>->" + lname[LB] + "<cuda_device_array(host shim)>,N=" + std::to_string(N) + ",<" + vh::tn<S>() + "," + std::to_string(M) + ">";
    if (!vh::selected(nm)) return;
    sc::ext_t<N> e;
    for (std::size_t k = 0; k < N; ++k) e[k] = 1;
    do {
        vh::set_case("%s extents=%s", nm.c_str(), sc::show<N>(e).c_str());
        const std::string d = "extents=" + sc::show<N>(e) + " ";
        FA a(covfie::make_parameter_pack(typename A::configuration_t(e), covfie::utility::nd_size<1>{storage_len<LA, N>(e)}));
        std::vector<S> model = fill<FA, N, S, M>(a, e, 1 + rng.below(100000));
        unsigned long m0 = vshim().mallocs, f0 = vshim().frees;
        {
            FD dev(a);
            if (!same_extents<decltype(dev.backend().get_configuration()), sc::ext_t<N>, N>(dev.backend().get_configuration(), e))
                vh::viol(nm + ":configuration", d + "device field reports extents " + vh::jarr(dev.backend().get_configuration(), N));
            std::string w = differs<FD, N, S, M>(dev, e, model);
            if (!w.empty()) vh::viol(nm + ":values", d + w);
            w = differs<FA, N, S, M>(a, e, model);
            if (!w.empty()) vh::viol(nm + ":source-changed", d + w);
        }
        if (vshim().mallocs - m0 != vshim().frees - f0) vh::viol(nm + ":device-memory-leak", d + "cudaMalloc " + std::to_string(vshim().mallocs - m0) + " cudaFree " + std::to_string(vshim().frees - f0));
        if (!sc::trivial_ext<N>(e)) {
            vh::nontrivial(vh::fnv(&e, sizeof e, vh::fnv(nm)));
            if (sc::cells<N>(e) > 8) vh::sample(nm, d, 1);
        }
    } while (sc::next_ext<N>(e, Bnd));
}
#endif

#ifndef SH_SRC
#define SH_SRC 0
#endif

template <int LB>
static void targets_all_n(vh::Rng & rng, const std::size_t * B)
{
    Conv<SH_SRC, LB, 1, float, 1>::run(B[1], rng);
    Conv<SH_SRC, LB, 2, float, 1>::run(B[2], rng);
    Conv<SH_SRC, LB, 3, float, 1>::run(B[3], rng);
    Conv<SH_SRC, LB, 4, float, 1>::run(B[4], rng);
    Conv<SH_SRC, LB, 1, double, 3>::run(B[1], rng);
    Conv<SH_SRC, LB, 2, double, 3>::run(B[2], rng);
    Conv<SH_SRC, LB, 3, double, 3>::run(B[3], rng);
    Conv<SH_SRC, LB, 4, double, 3>::run(B[4], rng);
}

int main(int argc, char ** argv)
{
    vh::init(argc, argv);
    vh::Rng rng(vh::st().seed * 4256233 + 5 + SH_SRC);
    const bool th = vh::st().thorough;
    const std::size_t Bq[5] = {0, 64, 12, 6, 4}, Bt[5] = {0, 256, 24, 10, 6};
    const std::size_t * B = th ? Bt : Bq;
#if defined(SH_CUDA)
    to_device<L_STRIDED, L_STRIDED, 1, float, 1>(B[1], rng);
    to_device<L_STRIDED, L_STRIDED, 2, float, 3>(B[2], rng);
    to_device<L_STRIDED, L_STRIDED, 3, double, 3>(B[3], rng);
    to_device<L_STRIDED, L_MORTON_T, 2, float, 3>(B[2], rng);
    to_device<L_STRIDED, L_MORTON_T, 3, float, 1>(B[3], rng);
    to_device<L_MORTON_T, L_STRIDED, 3, float, 3>(B[3], rng);
    to_device<L_STRIDED, L_HILBERT, 2, double, 1>(B[2], rng);
    to_device<L_STRIDED, L_STRIDED, 4, float, 2>(B[4], rng);
#elif SH_SRC == 3
    Conv<L_HILBERT, L_STRIDED, 2, float, 1>::run(B[2], rng);
    Conv<L_HILBERT, L_MORTON_T, 2, float, 1>::run(B[2], rng);
    Conv<L_HILBERT, L_MORTON_F, 2, float, 1>::run(B[2], rng);
    Conv<L_HILBERT, L_HILBERT, 2, float, 1>::run(B[2], rng);
    Conv<L_HILBERT, L_STRIDED, 2, double, 3>::run(B[2], rng);
    Conv<L_HILBERT, L_MORTON_T, 2, double, 3>::run(B[2], rng);
    Conv<L_HILBERT, L_MORTON_F, 2, double, 3>::run(B[2], rng);
    Conv<L_HILBERT, L_HILBERT, 2, double, 3>::run(B[2], rng);
    Stack<L_HILBERT, L_STRIDED, false, true, 2, float, 3>::run(B[2], rng, 3);
    Conv<L_HILBERT, L_STRIDED, 2, float, 3, std::size_t, double>::run(B[2], rng);
    Conv<L_HILBERT, L_HILBERT, 2, double, 1, std::size_t, float>::run(B[2], rng);
    Conv<L_HILBERT, L_MORTON_T, 2, float, 1, std::size_t, double>::run(B[2], rng);
    Stack<L_HILBERT, L_HILBERT, true, false, 2, float, 3, double, true>::run(B[2], rng, 3);
    Stack<L_HILBERT, L_MORTON_F, false, false, 2, double, 1, double, true>::run(B[2], rng, 3);
    Conv<L_HILBERT, L_STRIDED, 2, float, 1>::run_large(rng);
    Conv<L_HILBERT, L_MORTON_T, 2, float, 1>::run_large(rng);
    Conv<L_HILBERT, L_HILBERT, 2, float, 1>::run_large(rng);
#else
    targets_all_n<L_STRIDED>(rng, B);
    targets_all_n<L_MORTON_T>(rng, B);
    targets_all_n<L_MORTON_F>(rng, B);
    Conv<SH_SRC, L_HILBERT, 2, float, 1>::run(B[2], rng);
    Conv<SH_SRC, L_HILBERT, 2, double, 3>::run(B[2], rng);
    // narrow coordinate types, elongated extents
    Conv<SH_SRC, L_STRIDED, 2, float, 1, unsigned short>::run_listed(rng);
    Conv<SH_SRC, L_MORTON_T, 2, float, 1, unsigned short>::run_listed(rng);
    Conv<SH_SRC, L_MORTON_T, 3, float, 1, unsigned short>::run_listed(rng);
    Conv<SH_SRC, L_MORTON_F, 3, double, 3, unsigned short>::run_listed(rng);
    Conv<SH_SRC, L_MORTON_T, 3, float, 1, unsigned>::run_listed(rng);
    Conv<SH_SRC, L_STRIDED, 3, float, 1, int>::run_listed(rng);
    Conv<SH_SRC, L_MORTON_T, 2, double, 3, unsigned char>::run(B[2], rng);
    // extents whose padded curve side is 1024 and more
    Conv<SH_SRC, L_MORTON_T, 1, float, 1>::run_large(rng);
    Conv<SH_SRC, L_MORTON_F, 2, float, 1>::run_large(rng);
    Conv<SH_SRC, L_MORTON_T, 2, float, 1>::run_large(rng);
    Conv<SH_SRC, L_HILBERT, 2, float, 1>::run_large(rng);
    Conv<SH_SRC, L_STRIDED, 2, float, 1>::run_large(rng);
    // whole stacks, as the benchmarks convert them
    Stack<SH_SRC, L_STRIDED, false, true, 3, float, 3>::run(B[3], rng, 3);
    Stack<SH_SRC, L_MORTON_T, false, false, 3, float, 3>::run(B[3], rng, 3);
    Stack<SH_SRC, L_MORTON_T, true, true, 2, float, 1>::run(B[2], rng, 3);
    Stack<SH_SRC, L_MORTON_F, true, false, 3, double, 3>::run(B[3], rng, 3);
    Stack<SH_SRC, L_HILBERT, false, true, 2, float, 3>::run(B[2], rng, 3);
    Stack<SH_SRC, L_STRIDED, true, false, 1, float, 1>::run(B[1], rng, 3);
    Stack<SH_SRC, L_MORTON_T, false, true, 4, float, 1>::run(B[4], rng, 3);
    // the stored scalar type changes as well (float3 field -> double3 field and back), into every storage order
    Conv<SH_SRC, L_STRIDED, 3, float, 3, std::size_t, double>::run(B[3], rng);
    Conv<SH_SRC, L_MORTON_T, 2, double, 3, std::size_t, float>::run(B[2], rng);
    Conv<SH_SRC, L_MORTON_F, 3, float, 1, std::size_t, double>::run(B[3], rng);
    Conv<SH_SRC, L_HILBERT, 2, float, 3, std::size_t, double>::run(B[2], rng);
    Conv<SH_SRC, L_HILBERT, 2, double, 1, std::size_t, float>::run(B[2], rng);
    Stack<SH_SRC, L_HILBERT, false, true, 2, float, 3, double>::run(B[2], rng, 3);
    Stack<SH_SRC, L_STRIDED, true, true, 3, double, 3, float>::run(B[3], rng, 3);
    // whole stacks converted from an rvalue (the source is consumed)
    Stack<SH_SRC, L_STRIDED, false, true, 3, float, 3, float, true>::run(B[3], rng, 3);
    Stack<SH_SRC, L_MORTON_T, true, false, 2, float, 1, float, true>::run(B[2], rng, 3);
    Stack<SH_SRC, SH_SRC, false, true, 2, float, 3, float, true>::run(B[2], rng, 3);
    Stack<SH_SRC, L_HILBERT, true, true, 2, float, 3, double, true>::run(B[2], rng, 3);
#endif
    return vh::finish();
}
