// C13, members outside the generated zoo: (a) the "box from the backend's extents" constructors
// that clamp and backup declare, reached by a parameter pack that omits their own configuration;
// (b) the field API over cuda_device_array storage, compiled against a host shim of the CUDA runtime.
// One member per translation unit (-DPART=k): a compile failure is that member's own.
#include <sstream>
#include <variant>

#include <covfie/core/backend/primitive/array.hpp>
#include <covfie/core/backend/transformer/backup.hpp>
#include <covfie/core/backend/transformer/clamp.hpp>
#include <covfie/core/backend/transformer/strided.hpp>
#include <covfie/core/field.hpp>
#include <covfie/core/field_view.hpp>
#if PART >= 2
#include <covfie/cuda/backend/primitive/cuda_device_array.hpp>
#endif

#include "vh.hpp"

namespace cb = covfie::backend;
namespace cv = covfie::vector;
using ext2 = covfie::utility::nd_size<2>;
using len1 = covfie::utility::nd_size<1>;

#if PART >= 2
using DB = cb::strided<cv::size2, cb::cuda_device_array<cv::float2>>;
using DF = covfie::field<DB>;
static DF make_dev()
{
    DF f(covfie::make_parameter_pack(ext2{3ul, 4ul}, len1{12ul}));
    DF::view_t v(f);
    for (std::size_t x = 0; x < 3; ++x)
        for (std::size_t y = 0; y < 4; ++y) {
            v.at(x, y)[0] = (float)(10 * x + y);
            v.at(x, y)[1] = (float)(100 + 10 * x + y);
        }
    return f;
}
static void expect(const DF & f, const char * what)
{
    DF::view_t v(f);
    for (std::size_t x = 0; x < 3; ++x)
        for (std::size_t y = 0; y < 4; ++y) {
            vh::ev();
            if (v.at(x, y)[0] != (float)(10 * x + y) || v.at(x, y)[1] != (float)(100 + 10 * x + y)) {
                vh::viol(std::string("cuda-shim:") + what, "cell (" + std::to_string(x) + "," + std::to_string(y) + ") differs after " + what);
                return;
            }
        }
}
#endif

int main(int argc, char ** argv)
{
    vh::init(argc, argv);
#if PART == 0
    {
        using B = cb::clamp<cb::strided<cv::size2, cb::array<cv::float1>>>;
        vh::set_case("clamp: box from the backend's extents");
        covfie::field<B> f(covfie::make_parameter_pack(ext2{3ul, 4ul}, len1{12ul}));
        auto c = f.backend().get_configuration();
        vh::ev();
        if (c.min[0] != 0 || c.min[1] != 0) vh::viol("declared-ctor:clamp-default-box", "box does not start at the origin");
    }
#elif PART == 1
    {
        using B = cb::backup<cb::strided<cv::size2, cb::array<cv::float1>>>;
        vh::set_case("backup: box from the backend's extents");
        covfie::field<B> f(covfie::make_parameter_pack(ext2{3ul, 4ul}, len1{12ul}));
        auto c = f.backend().get_configuration();
        vh::ev();
        if (c.min[0] != 0 || c.min[1] != 0) vh::viol("declared-ctor:backup-default-box", "box does not start at the origin");
    }
#elif PART == 2
    vh::set_case("cuda shim: construct + view + at");
    {
        DF f = make_dev();
        expect(f, "construct");
    }
#elif PART == 3
    vh::set_case("cuda shim: copy-construct");
    {
        DF f = make_dev();
        DF g(f);
        expect(g, "copy");
        expect(f, "copy (source)");
    }
#elif PART == 4
    vh::set_case("cuda shim: move-construct");
    {
        DF f = make_dev();
        DF g(std::move(f));
        expect(g, "move");
    }
#elif PART == 5
    vh::set_case("cuda shim: copy-assign");
    {
        DF f = make_dev();
        DF g(covfie::make_parameter_pack(ext2{1ul, 1ul}, len1{1ul}));
        g = f;
        expect(g, "copy-assign");
    }
#elif PART == 6
    vh::set_case("cuda shim: move-assign");
    {
        DF f = make_dev();
        DF g(covfie::make_parameter_pack(ext2{1ul, 1ul}, len1{1ul}));
        g = std::move(f);
        expect(g, "move-assign");
    }
#elif PART == 7
    vh::set_case("cuda shim: dump + load");
    {
        DF f = make_dev();
        std::stringstream ss(std::ios::in | std::ios::out | std::ios::binary);
        f.dump(ss);
        DF g(static_cast<std::istream &>(ss));
        expect(g, "dump+load");
    }
#endif
#if PART >= 2
    if (vshim().mallocs != vshim().frees) vh::viol("cuda-shim:device-memory-leak", "cudaMalloc " + std::to_string(vshim().mallocs) + " cudaFree " + std::to_string(vshim().frees));
#endif
    vh::nontrivial(vh::mix(1234, PART));
    vh::sample("extra-members", std::string("part ") + std::to_string(PART) + " compiled and ran", 8);
    return vh::finish();
}
