// C14: storage orders follow their published curves.  Positions are observed through the
// real layers stacked on identity<size1> (which returns the flat position it is asked for)
// and through the static index functions.
#include <cstdint>
#include <sstream>
#include <variant>
#include <vector>

#include <covfie/core/backend/primitive/identity.hpp>
#include <covfie/core/backend/transformer/strided.hpp>
#include <covfie/core/field.hpp>
#include <covfie/core/field_view.hpp>
#include <covfie/core/backend/primitive/array.hpp>
#include <covfie/core/backend/transformer/morton.hpp>
#if defined(SH_HILBERT)
#include <covfie/core/backend/transformer/hilbert.hpp>
#endif

#include "refs.hpp"
#include "vh.hpp"

namespace cb = covfie::backend;
namespace cv = covfie::vector;
using pos_backend = cb::identity<cv::size1>;

template <typename I, std::size_t N>
static std::string nm(const char * layer)
{
    return std::string(layer) + "<" + vh::tn<I>() + "," + std::to_string(N) + ">";
}

template <std::size_t N>
static unsigned nonzero(const uint64_t * c)
{
    unsigned n = 0;
    for (std::size_t k = 0; k < N; ++k) n += c[k] != 0;
    return n;
}

// ------------------------------------------------------------------ row-major
#if defined(SH_ROWMAJOR)
// a row-major field produced by the library's own re-layout copy must hold coordinate c at the
// published flat position too (observed in the raw array beneath the layer)
template <std::size_t N>
static void converted_rowmajor(uint64_t B)
{
    using idx_d = cv::vector_d<std::size_t, N>;
    using src_t = covfie::field<cb::morton<idx_d, cb::array<cv::float1>, false>>;
    using dst_t = covfie::field<cb::strided<idx_d, cb::array<cv::float1>>>;
    std::string name = "strided<size_t," + std::to_string(N) + ">:converted-from-morton";
    if (!vh::selected(name)) return;
    uint64_t ext[N], c[N];
    for (std::size_t k = 0; k < N; ++k) ext[k] = 1;
    for (;;) {
        covfie::utility::nd_size<N> sizes;
        uint64_t mx = 1, len = 1, cells = 1;
        for (std::size_t k = 0; k < N; ++k) {
            sizes[k] = ext[k];
            mx = ext[k] > mx ? ext[k] : mx;
            cells *= ext[k];
        }
        uint64_t side = 1;
        while (side < mx) side *= 2;
        for (std::size_t k = 0; k < N; ++k) len *= side;
        vh::set_case("%s extents=%s", name.c_str(), vh::jarr(ext, N).c_str());
        src_t src(covfie::make_parameter_pack(typename src_t::backend_t::configuration_t(sizes), covfie::utility::nd_size<1>{len}));
        {
            typename src_t::view_t sv(src);
            for (std::size_t k = 0; k < N; ++k) c[k] = 0;
            for (;;) {
                typename src_t::coordinate_t cc;
                uint64_t id = 0;
                for (std::size_t k = 0; k < N; ++k) {
                    cc[k] = c[k];
                    id = id * 64 + c[k];
                }
                sv.at(cc)[0] = (float)(id + 1);
                std::size_t k = 0;
                while (k < N && ++c[k] >= ext[k]) c[k++] = 0;
                if (k == N) break;
            }
        }
        dst_t dst(src);
        typename cb::array<cv::float1>::non_owning_data_t raw(dst.backend().get_backend());
        bool alleq = true;
        for (std::size_t k = 1; k < N; ++k) alleq = alleq && ext[k] == ext[0];
        for (std::size_t k = 0; k < N; ++k) c[k] = 0;
        for (;;) {
            uint64_t id = 0;
            for (std::size_t k = 0; k < N; ++k) id = id * 64 + c[k];
            uint64_t pos = (uint64_t)ref::rowmajor(c, ext, N);
            vh::ev();
            if (!alleq && nonzero<N>(c) >= 2) vh::nontrivial_enumerated();
            if (pos >= cells || raw.at(pos)[0] != (float)(id + 1)) {
                vh::viol(name, "extents=" + vh::jarr(ext, N) + " c=" + vh::jarr(c, N) + ": flat position " + std::to_string(pos) + " of the converted field does not hold the value of that coordinate");
                break;
            }
            std::size_t k = 0;
            while (k < N && ++c[k] >= ext[k]) c[k++] = 0;
            if (k == N) break;
        }
        std::size_t k = 0;
        while (k < N && ++ext[k] > B) {
            ext[k] = 1;
            ++k;
        }
        if (k == N) break;
    }
}

// the same field after a trip through its own dump: a reloaded field follows the same curve
template <typename F>
static F reload(const F & f)
{
    std::stringstream ss(std::ios::in | std::ios::out | std::ios::binary);
    f.dump(ss);
    return F(ss);
}

template <typename I, std::size_t N>
struct RowMajor {
    using backend_t = cb::strided<cv::vector_d<I, N>, pos_backend>;
    using field_t = covfie::field<backend_t>;
    using coord_t = typename field_t::coordinate_t;

    static void lookup(const typename field_t::view_t & v, const uint64_t * ext, const uint64_t * c, const std::string & name, bool enumerated)
    {
        coord_t cc;
        for (std::size_t k = 0; k < N; ++k) cc[k] = (I)c[k];
        uint64_t got = v.at(cc)[0];
        ref::u128 want = ref::rowmajor(c, ext, N);
        vh::ev();
        bool alleq = true;
        for (std::size_t k = 1; k < N; ++k) alleq = alleq && ext[k] == ext[0];
        if (nonzero<N>(c) >= 2 && !alleq) {
            if (enumerated)
                vh::nontrivial_enumerated();
            else
                vh::nontrivial(vh::fnv(c, 8 * N, vh::fnv(ext, 8 * N, vh::fnv(name))));
        }
        if ((ref::u128)got != want) {
            std::vector<uint64_t> e(ext, ext + N), cv_(c, c + N);
            vh::viol(name, "extents=(" + vh::join(e) + ") c=(" + vh::join(cv_) + ") position=" + std::to_string(got) + " want=" + std::to_string((uint64_t)want));
        }
    }

    static void run(uint64_t B, vh::Rng & rng, unsigned nrandom)
    {
        std::string name = nm<I, N>("strided");
        if (!vh::selected(name)) return;
        const std::string rname = name + ":reloaded";
        uint64_t ext[N], c[N];
        for (std::size_t k = 0; k < N; ++k) ext[k] = 1;
        // every extent vector in 1..B, every in-range coordinate
        for (;;) {
            covfie::utility::nd_size<N> sizes;
            for (std::size_t k = 0; k < N; ++k) sizes[k] = ext[k];
            vh::set_case("%s extents=%s exhaustive", name.c_str(), vh::jarr(ext, N).c_str());
            field_t f(covfie::make_parameter_pack(typename backend_t::configuration_t(sizes), std::monostate{}));
            typename field_t::view_t v(f);
            field_t g(reload(f));
            typename field_t::view_t vg(g);
            for (std::size_t k = 0; k < N; ++k) c[k] = 0;
            for (;;) {
                lookup(v, ext, c, name, true);
                lookup(vg, ext, c, rname, true);
                std::size_t k = 0;
                while (k < N && ++c[k] >= ext[k]) {
                    c[k] = 0;
                    ++k;
                }
                if (k == N) break;
            }
            std::size_t k = 0;
            while (k < N && ++ext[k] > B) {
                ext[k] = 1;
                ++k;
            }
            if (k == N) break;
        }
        // random large extents: the flat position must fit the coordinate type (the layer accumulates in it)
        const unsigned bits = std::is_signed_v<I> ? sizeof(I) * 8 - 1 : sizeof(I) * 8;
        const unsigned total = bits > 62 ? 62 : bits;
        for (unsigned r = 0; r < nrandom; ++r) {
            unsigned left = total;
            for (std::size_t k = 0; k < N; ++k) {
                unsigned b = k + 1 == N ? left : (unsigned)rng.below(left + 1);
                if (b > left) b = left;
                left -= b;
                uint64_t hi = b == 0 ? 1 : (1ull << b);
                ext[k] = 1 + rng.below(hi);  // <= 2^b, product <= 2^total
                if (ext[k] > hi) ext[k] = hi;
            }
            for (std::size_t k = N; k > 1; --k) std::swap(ext[k - 1], ext[rng.below(k)]);
            covfie::utility::nd_size<N> sizes;
            for (std::size_t k = 0; k < N; ++k) sizes[k] = ext[k];
            vh::set_case("%s extents=%s random", name.c_str(), vh::jarr(ext, N).c_str());
            field_t f(covfie::make_parameter_pack(typename backend_t::configuration_t(sizes), std::monostate{}));
            typename field_t::view_t v(f);
            field_t g(reload(f));
            typename field_t::view_t vg(g);
            for (unsigned q = 0; q < 24; ++q) {
                for (std::size_t k = 0; k < N; ++k) {
                    switch (rng.below(5)) {
                    case 0: c[k] = 0; break;
                    case 1: c[k] = ext[k] - 1; break;
                    case 2: c[k] = ext[k] / 2; break;
                    default: c[k] = rng.below(ext[k]); break;
                    }
                }
                lookup(v, ext, c, name, false);
                lookup(vg, ext, c, rname, false);
            }
            if (r < 2) vh::sample(name, "extents=" + vh::jarr(ext, N) + " c=" + vh::jarr(c, N) + " position=" + std::to_string((uint64_t)ref::rowmajor(c, ext, N)), 2);
        }
    }
};
#endif

// ------------------------------------------------------------------ Morton
#if defined(SH_MORTON)
template <typename I, std::size_t N>
struct Morton {
    using idx_t = cv::vector_d<I, N>;
    using bT = cb::morton<idx_t, pos_backend, true>;
    using bF = cb::morton<idx_t, pos_backend, false>;
    using coord_t = typename bT::contravariant_input_t::vector_t;
    static constexpr unsigned tbits = std::is_signed_v<I> ? sizeof(I) * 8 - 1 : sizeof(I) * 8;
    static constexpr unsigned cbits = (64 / N) < tbits ? (64 / N) : tbits;  // usable bits per coordinate

    static void one(const uint64_t * c, const std::string & name, bool enumerated)
    {
        coord_t cc;
        for (std::size_t k = 0; k < N; ++k) cc[k] = (I)c[k];
        uint64_t want = (uint64_t)ref::morton(c, N);
        uint64_t gT = bT::calculate_index(cc);
        uint64_t gF = bF::calculate_index(cc);
        vh::ev(2);
        if (nonzero<N>(c) >= 2 || N == 1) {
            if (enumerated)
                vh::nontrivial_enumerated();
            else
                vh::nontrivial(vh::fnv(c, 8 * N, vh::fnv(name)));
        }
        if (gT != want || gF != want) {
            std::vector<uint64_t> cv_(c, c + N);
            std::string which = gT != want ? (gF != want ? "both" : "use_bmi2=true") : "use_bmi2=false";
            vh::viol(name + ":" + which, "c=(" + vh::join(cv_) + ") true=" + std::to_string(gT) + " false=" + std::to_string(gF) + " want=" + std::to_string(want));
        }
    }

    static void run(unsigned nb, vh::Rng & rng, uint64_t nrandom)
    {
        std::string name = nm<I, N>("morton");
        if (!vh::selected(name)) return;
        unsigned b = nb / N;
        if (b > cbits) b = cbits;
        uint64_t c[N];
        // exhaustive below 2^b per axis, static functions
        vh::set_case("%s exhaustive b=%u", name.c_str(), b);
        for (std::size_t k = 0; k < N; ++k) c[k] = 0;
        for (;;) {
            one(c, name, true);
            std::size_t k = 0;
            while (k < N && ++c[k] >= (1ull << b)) {
                c[k] = 0;
                ++k;
            }
            if (k == N) break;
        }
        // through the view over identity<size1> (assertions on in the debug build)
        if constexpr (std::is_same_v<I, std::size_t> || N <= 2) {
            unsigned vb = b > 6 ? 6 : b;
            covfie::utility::nd_size<N> sizes;
            for (std::size_t k = 0; k < N; ++k) sizes[k] = 1ull << vb;
            covfie::field<bT> fT(covfie::make_parameter_pack(typename bT::configuration_t(sizes), std::monostate{}));
            covfie::field<bF> fF(covfie::make_parameter_pack(typename bF::configuration_t(sizes), std::monostate{}));
            typename covfie::field<bT>::view_t vT(fT);
            typename covfie::field<bF>::view_t vF(fF);
            vh::set_case("%s view vb=%u", name.c_str(), vb);
            for (std::size_t k = 0; k < N; ++k) c[k] = 0;
            for (;;) {
                coord_t cc;
                for (std::size_t k = 0; k < N; ++k) cc[k] = (I)c[k];
                uint64_t want = (uint64_t)ref::morton(c, N);
                uint64_t a = vT.at(cc)[0], bb = vF.at(cc)[0];
                vh::ev(2);
                if (a != want || bb != want) vh::viol(name + ":view", "c=" + vh::jarr(c, N) + " true=" + std::to_string(a) + " false=" + std::to_string(bb) + " want=" + std::to_string(want));
                std::size_t k = 0;
                while (k < N && ++c[k] >= (1ull << vb)) {
                    c[k] = 0;
                    ++k;
                }
                if (k == N) break;
            }
        }
        // single-bit and all-ones patterns at every usable bit position
        vh::set_case("%s bit patterns", name.c_str());
        for (unsigned bit = 0; bit < cbits; ++bit) {
            for (std::size_t j = 0; j < N; ++j) {
                for (std::size_t k = 0; k < N; ++k) c[k] = 0;
                c[j] = 1ull << bit;
                one(c, name, false);
                c[j] = bit == 63 ? ~0ull : ((2ull << bit) - 1);
                one(c, name, false);
                for (std::size_t k = 0; k < N; ++k) c[k] = 1ull << bit;
                one(c, name, false);
                for (std::size_t k = 0; k < N; ++k) c[k] = bit == 63 ? ~0ull : ((2ull << bit) - 1);
                one(c, name, false);
            }
        }
        // random full-width coordinates
        vh::set_case("%s random", name.c_str());
        for (uint64_t r = 0; r < nrandom; ++r) {
            for (std::size_t k = 0; k < N; ++k) {
                unsigned w = 1 + (unsigned)rng.below(cbits);
                c[k] = rng.next() & (w == 64 ? ~0ull : ((1ull << w) - 1));
            }
            one(c, name, false);
            if (r < 2) vh::sample(name, "c=" + vh::jarr(c, N) + " position=" + std::to_string((uint64_t)ref::morton(c, N)), 2);
        }
    }
};
#endif

// ------------------------------------------------------------------ Hilbert
#if defined(SH_HILBERT)
static void hilbert(unsigned kmax)
{
    using backend_t = cb::hilbert<cv::size2, pos_backend>;
    using field_t = covfie::field<backend_t>;
    for (unsigned k = 0; k <= kmax; ++k) {
        uint64_t n = 1ull << k;
        std::string name = "hilbert<k=" + std::to_string(k) + ">";
        if (!vh::selected(name)) continue;
        vh::set_case("%s", name.c_str());
        covfie::utility::nd_size<2> sizes;
        sizes[0] = n;
        sizes[1] = n;
        field_t f(covfie::make_parameter_pack(backend_t::configuration_t(sizes), std::monostate{}));
        field_t::view_t v(f);
        std::vector<uint32_t> cell_of(n * n, 0xffffffffu);  // position -> packed cell
        uint64_t dup = 0, oob = 0;
        for (uint64_t x = 0; x < n; ++x) {
            for (uint64_t y = 0; y < n; ++y) {
                uint64_t d = v.at(field_t::coordinate_t{x, y})[0];
                uint64_t ds = backend_t::calculate_index(field_t::coordinate_t{x, y}, sizes);
                vh::ev();
                if (x && y) vh::nontrivial_enumerated();
                if (ds != d) vh::viol(name + ":view-vs-static", "cell=(" + std::to_string(x) + "," + std::to_string(y) + ")");
                if (d >= n * n) {
                    if (oob++ < 2) vh::viol(name + ":position-out-of-square", "cell=(" + std::to_string(x) + "," + std::to_string(y) + ") d=" + std::to_string(d));
                    continue;
                }
                if (cell_of[d] != 0xffffffffu) {
                    if (dup++ < 2) vh::viol(name + ":cell-visited-twice", "cell=(" + std::to_string(x) + "," + std::to_string(y) + ") d=" + std::to_string(d));
                    continue;
                }
                cell_of[d] = (uint32_t)(x << 16 | y);
                // published curve, inverse direction
                uint64_t rx, ry;
                ref::hilbert_d2xy(n, d, rx, ry);
                if (rx != x || ry != y)
                    vh::viol(name + ":differs-from-published-curve", "cell=(" + std::to_string(x) + "," + std::to_string(y) + ") d=" + std::to_string(d) + " d2xy(d)=(" + std::to_string(rx) + "," + std::to_string(ry) + ")");
            }
        }
        if (dup || oob) continue;
        // bijection: n*n cells, n*n positions, no duplicate, none out of range => every position hit
        if (cell_of[0] != 0) vh::viol(name + ":does-not-start-at-origin", "d(0,0) != 0");
        uint64_t bad = 0;
        for (uint64_t d = 0; d + 1 < n * n; ++d) {
            int64_t x0 = cell_of[d] >> 16, y0 = cell_of[d] & 0xffff, x1 = cell_of[d + 1] >> 16, y1 = cell_of[d + 1] & 0xffff;
            int64_t man = (x0 > x1 ? x0 - x1 : x1 - x0) + (y0 > y1 ? y0 - y1 : y1 - y0);
            vh::ev();
            if (man != 1 && bad++ < 2) vh::viol(name + ":not-edge-adjacent", "d=" + std::to_string(d) + " (" + std::to_string(x0) + "," + std::to_string(y0) + ") -> (" + std::to_string(x1) + "," + std::to_string(y1) + ")");
        }
        if (k >= 2 && k <= 3) {
            std::string path;
            for (uint64_t d = 0; d < 6 && d < n * n; ++d) path += "(" + std::to_string(cell_of[d] >> 16) + "," + std::to_string(cell_of[d] & 0xffff) + ")";
            vh::sample(name, "first cells " + path, 1);
        }
    }
}
#endif

int main(int argc, char ** argv)
{
    vh::init(argc, argv);
    bool th = vh::st().thorough;
    vh::Rng rng(vh::st().seed * 104729 + 14);
    (void)rng;
    (void)th;
#if defined(SH_ROWMAJOR)
    {
        const uint64_t Bq[5] = {0, 64, 12, 6, 4}, Bt[5] = {0, 256, 24, 10, 6};
        const uint64_t * B = th ? Bt : Bq;
        unsigned nr = th ? 20000 : 3000;
        converted_rowmajor<2>(B[2]);
        converted_rowmajor<3>(B[3]);
        converted_rowmajor<4>(B[4]);
        RowMajor<std::size_t, 1>::run(B[1], rng, nr);
        RowMajor<std::size_t, 2>::run(B[2], rng, nr);
        RowMajor<std::size_t, 3>::run(B[3], rng, nr);
        RowMajor<std::size_t, 4>::run(B[4], rng, nr);
        RowMajor<unsigned, 1>::run(B[1], rng, nr);
        RowMajor<unsigned, 2>::run(B[2], rng, nr);
        RowMajor<unsigned, 3>::run(B[3], rng, nr);
        RowMajor<unsigned, 4>::run(B[4], rng, nr);
        RowMajor<int, 1>::run(B[1], rng, nr);
        RowMajor<int, 2>::run(B[2], rng, nr);
        RowMajor<int, 3>::run(B[3], rng, nr);
        RowMajor<int, 4>::run(B[4], rng, nr);
    }
#endif
#if defined(SH_MORTON)
    {
        unsigned nb = th ? 24 : 20;
        uint64_t nr = th ? 4000000 : 1000000;
        Morton<std::size_t, 1>::run(nb, rng, nr);
        Morton<std::size_t, 2>::run(nb, rng, nr);
        Morton<std::size_t, 3>::run(nb, rng, nr);
        Morton<std::size_t, 4>::run(nb, rng, nr);
        Morton<unsigned, 1>::run(nb, rng, nr / 4);
        Morton<unsigned, 2>::run(nb, rng, nr / 4);
        Morton<unsigned, 3>::run(nb, rng, nr / 4);
        Morton<unsigned, 4>::run(nb, rng, nr / 4);
        Morton<int, 1>::run(nb, rng, nr / 4);
        Morton<int, 2>::run(nb, rng, nr / 4);
        Morton<int, 3>::run(nb, rng, nr / 4);
        Morton<int, 4>::run(nb, rng, nr / 4);
    }
#endif
#if defined(SH_HILBERT)
    hilbert(th ? 10 : 8);
#endif
    return vh::finish();
}
