// C06 (part): arrays whose INDEX type is narrow, with lengths up to and including the full index range.
// dump -> load -> bitwise comparison -> second dump byte-identical.
#include <cstdint>
#include <cstring>
#include <sstream>

#include <covfie/core/backend/primitive/array.hpp>
#include <covfie/core/backend/transformer/strided.hpp>
#include <covfie/core/field.hpp>

#include "vh.hpp"

namespace cb = covfie::backend;
namespace cv = covfie::vector;

template <typename I, typename S, std::size_t M>
static void one(std::size_t len, vh::Rng & rng)
{
    using B = cb::strided<cv::vector_d<I, 1>, cb::array<cv::vector_d<S, M>, I>>;
    using F = covfie::field<B>;
    std::string nm = std::string("strided<") + vh::tn<I>() + "1, array<" + vh::tn<S>() + std::to_string(M) + ", " + vh::tn<I>() + ">>";
    vh::set_case("%s length %zu", nm.c_str(), len);
    F f(covfie::make_parameter_pack(covfie::utility::nd_size<1>{len}, covfie::utility::nd_size<1>{len}));
    {
        typename cb::array<cv::vector_d<S, M>, I>::non_owning_data_t raw(f.backend().get_backend());
        for (std::size_t i = 0; i < len && i <= (std::size_t)std::numeric_limits<I>::max(); ++i)
            for (std::size_t j = 0; j < M; ++j) {
                uint64_t bits = rng.next();
                S v;
                std::memcpy(&v, &bits, sizeof v);
                std::memcpy(&raw.at((I)i)[j], &v, sizeof v);
            }
    }
    std::ostringstream o1(std::ios::binary);
    f.dump(o1);
    const std::string d1 = o1.str();
    vh::ev();
    vh::nontrivial(vh::mix(vh::fnv(nm), len));
    const std::string tag = "narrow-index:" + nm;
    try {
        std::istringstream is(d1, std::ios::binary);
        F g(is);
        if (g.backend().get_configuration()[0] != len || g.backend().get_backend().get_configuration()[0] != len)
            vh::viol(tag + ":configuration", "length " + std::to_string(len) + " reloads as " + std::to_string(g.backend().get_backend().get_configuration()[0]));
        typename cb::array<cv::vector_d<S, M>, I>::non_owning_data_t a(f.backend().get_backend()), b(g.backend().get_backend());
        for (std::size_t i = 0; i < len && i <= (std::size_t)std::numeric_limits<I>::max(); ++i)
            if (std::memcmp(&a.at((I)i), &b.at((I)i), sizeof(S) * M) != 0) {
                vh::viol(tag + ":stored-bits", "length " + std::to_string(len) + " cell " + std::to_string(i) + " differs after reload");
                break;
            }
        std::ostringstream o2(std::ios::binary);
        g.dump(o2);
        if (o2.str() != d1) vh::viol(tag + ":redump", "length " + std::to_string(len) + ": second dump differs from the first");
        if (is.peek() != std::char_traits<char>::eof()) vh::viol(tag + ":trailing-bytes", "length " + std::to_string(len));
    } catch (const std::exception & e) {
        vh::viol(tag + ":rejected", "length " + std::to_string(len) + ": " + e.what());
    }
    vh::sample("narrow-index", nm + " length " + std::to_string(len) + " dump=" + std::to_string(d1.size()) + "B", 4);
}

int main(int argc, char ** argv)
{
    vh::init(argc, argv);
    vh::Rng rng(vh::st().seed * 8191 + 6);
    for (std::size_t len : {1ul, 5ul, 200ul, 255ul, 256ul}) {
        one<unsigned char, float, 1>(len, rng);
        one<unsigned char, double, 3>(len, rng);
    }
    for (std::size_t len : {300ul, 65535ul, 65536ul}) {
        one<unsigned short, float, 2>(len, rng);
        one<unsigned short, double, 1>(len, rng);
    }
    for (std::size_t len : {7ul, 70000ul}) {
        one<unsigned, float, 3>(len, rng);
        one<int, double, 2>(len, rng);
    }
    return vh::finish();
}
