// C06 (part): arrays whose INDEX type is narrow, with lengths up to and including the full index range.
// dump -> load -> bitwise comparison -> second dump byte-identical.
#include <cstdint>
#include <cstdio>
#include <cstring>
#include <sstream>

#include <covfie/core/backend/primitive/array.hpp>
#include <covfie/core/backend/transformer/strided.hpp>
#include <covfie/core/field.hpp>

#include "vh.hpp"

namespace cb = covfie::backend;
namespace cv = covfie::vector;

template <typename I, typename S, std::size_t M>
static void one(std::size_t len, vh::Rng & rng)
{
    using B = cb::strided<cv::vector_d<I, 1>, cb::array<cv::vector_d<S, M>, I>>;
    using F = covfie::field<B>;
    std::string nm = std::string("strided<") + vh::tn<I>() + "1, array<" + vh::tn<S>() + std::to_string(M) + ", " + vh::tn<I>() + ">>";
    vh::set_case("%s length %zu", nm.c_str(), len);
    F f(covfie::make_parameter_pack(covfie::utility::nd_size<1>{len}, covfie::utility::nd_size<1>{len}));
    {
        typename cb::array<cv::vector_d<S, M>, I>::non_owning_data_t raw(f.backend().get_backend());
        for (std::size_t i = 0; i < len && i <= (std::size_t)std::numeric_limits<I>::max(); ++i)
            for (std::size_t j = 0; j < M; ++j) {
                uint64_t bits = rng.next();
                S v;
                std::memcpy(&v, &bits, sizeof v);
                std::memcpy(&raw.at((I)i)[j], &v, sizeof v);
            }
    }
    std::ostringstream o1(std::ios::binary);
    f.dump(o1);
    const std::string d1 = o1.str();
    vh::ev();
    vh::nontrivial(vh::mix(vh::fnv(nm), len));
    const std::string tag = "narrow-index:" + nm;
    try {
        std::istringstream is(d1, std::ios::binary);
        F g(is);
        if (g.backend().get_configuration()[0] != len || g.backend().get_backend().get_configuration()[0] != len)
            vh::viol(tag + ":configuration", "length " + std::to_string(len) + " reloads as " + std::to_string(g.backend().get_backend().get_configuration()[0]));
        typename cb::array<cv::vector_d<S, M>, I>::non_owning_data_t a(f.backend().get_backend()), b(g.backend().get_backend());
        for (std::size_t i = 0; i < len && i <= (std::size_t)std::numeric_limits<I>::max(); ++i)
            if (std::memcmp(&a.at((I)i), &b.at((I)i), sizeof(S) * M) != 0) {
                vh::viol(tag + ":stored-bits", "length " + std::to_string(len) + " cell " + std::to_string(i) + " differs after reload");
                break;
            }
        std::ostringstream o2(std::ios::binary);
        g.dump(o2);
        if (o2.str() != d1) vh::viol(tag + ":redump", "length " + std::to_string(len) + ": second dump differs from the first");
        if (is.peek() != std::char_traits<char>::eof()) vh::viol(tag + ":trailing-bytes", "length " + std::to_string(len));
    } catch (const std::exception & e) {
        vh::viol(tag + ":rejected", "length " + std::to_string(len) + ": " + e.what());
    }
    vh::sample("narrow-index", nm + " length " + std::to_string(len) + " dump=" + std::to_string(d1.size()) + "B", 4);
}

// fields that hold no cells at all: a zero extent, a zero-length array, a default-constructed field.  "All extent vectors"
// includes these; the payload is empty but header, element count and footer of every layer are still written and read.
template <typename F>
static void empty_one(const std::string & nm, const F & f, std::size_t want_cells, const char * spec)
{
    vh::set_case("empty field %s", nm.c_str());
    const std::string tag = "empty:" + nm;
    std::ostringstream o1(std::ios::binary);
    f.dump(o1);
    const std::string d1 = o1.str();
    {
        // for the independent parser of the format grammar (C07): spec = kind,m,width[,extents]
        std::string hx;
        static const char * dg = "0123456789abcdef";
        for (unsigned char ch : d1) {
            hx.push_back(dg[ch >> 4]);
            hx.push_back(dg[ch & 15]);
        }
        std::printf("@EMPTY %s\t%s\t%s\n", nm.c_str(), spec, hx.c_str());
    }
    vh::ev();
    vh::nontrivial(vh::fnv(nm));
    try {
        std::istringstream is(d1, std::ios::binary);
        F g(is);
        if (is.peek() != std::char_traits<char>::eof()) vh::viol(tag + ":trailing-bytes", "the load left bytes of its own dump unread");
        std::ostringstream o2(std::ios::binary);
        g.dump(o2);
        if (o2.str() != d1) vh::viol(tag + ":redump", "second dump (" + std::to_string(o2.str().size()) + "B) differs from the first (" + std::to_string(d1.size()) + "B)");
        // a copy and an assigned-over field dump the same bytes too
        F h(g);
        std::ostringstream o3(std::ios::binary);
        h.dump(o3);
        if (o3.str() != d1) vh::viol(tag + ":copy-redump", "dump of a copy of the reloaded field differs");
    } catch (const std::exception & e) {
        vh::viol(tag + ":rejected", std::string("the library's own dump of a field with ") + std::to_string(want_cells) + " cells does not load: " + e.what());
    }
    vh::sample("empty", nm + " dump=" + std::to_string(d1.size()) + "B", 6);
}

static void empties()
{
    using A1 = cb::array<cv::float2>;
    using A2 = cb::array<cv::double1>;
    using S1 = cb::strided<cv::size1, cb::array<cv::float1>>;
    using S2 = cb::strided<cv::size2, cb::array<cv::double3>>;
    using S3 = cb::strided<cv::size3, cb::array<cv::float3>>;
    empty_one("array<float2>{0}", covfie::field<A1>(covfie::make_parameter_pack(A1::configuration_t{0ul})), 0, "A,2,4");
    empty_one("array<double1>{0}", covfie::field<A2>(covfie::make_parameter_pack(A2::configuration_t{0ul})), 0, "A,1,8");
    empty_one("array<float2> default-constructed", covfie::field<A1>(), 0, "A,2,4");
    empty_one("strided<size1,array<float1>>{0}", covfie::field<S1>(covfie::make_parameter_pack(S1::configuration_t{0ul})), 0, "S,1,4,0");
    empty_one("strided<size2,array<double3>>{0,5}", covfie::field<S2>(covfie::make_parameter_pack(S2::configuration_t{0ul, 5ul})), 0, "S,3,8,0:5");
    empty_one("strided<size2,array<double3>>{5,0}", covfie::field<S2>(covfie::make_parameter_pack(S2::configuration_t{5ul, 0ul})), 0, "S,3,8,5:0");
    empty_one("strided<size3,array<float3>>{4,0,7}", covfie::field<S3>(covfie::make_parameter_pack(S3::configuration_t{4ul, 0ul, 7ul})), 0, "S,3,4,4:0:7");
    empty_one("strided<size3,array<float3>> default-constructed", covfie::field<S3>(), 0, "S,3,4,0:0:0");
}

int main(int argc, char ** argv)
{
    vh::init(argc, argv);
    vh::Rng rng(vh::st().seed * 8191 + 6);
#ifdef VERIF_EMPTIES_ONLY
    empties();
    return vh::finish();
#endif
    for (std::size_t len : {1ul, 5ul, 200ul, 255ul, 256ul}) {
        one<unsigned char, float, 1>(len, rng);
        one<unsigned char, double, 3>(len, rng);
    }
    for (std::size_t len : {300ul, 65535ul, 65536ul}) {
        one<unsigned short, float, 2>(len, rng);
        one<unsigned short, double, 1>(len, rng);
    }
    for (std::size_t len : {7ul, 70000ul}) {
        one<unsigned, float, 3>(len, rng);
        one<int, double, 2>(len, rng);
    }
    empties();
    return vh::finish();
}
