// probes.hpp -- user-defined backends that satisfy covfie's field_backend concept and make
// the events the properties talk about observable without touching /repo.
#pragma once
#include <cstdint>
#include <iostream>
#include <memory>
#include <stdexcept>

#include <covfie/core/concepts.hpp>
#include <covfie/core/parameter_pack.hpp>
#include <covfie/core/utility/nd_size.hpp>
#include <covfie/core/vector.hpp>

namespace probe {

struct FlatLog {
    uint64_t size = 0;     // declared length
    uint64_t queries = 0;  // lookups received
    uint64_t oob = 0;      // lookups with index >= size
    uint64_t last = 0;     // last index asked for
    uint64_t first_oob = 0;
    uint64_t ring[64] = {};  // the most recent indices, ring[(queries - 1) % 64] is the last one
};

// Flat storage backend of the same kind as covfie::backend::array: size_t index in, reference
// to a V out.  Allocates nothing (every lookup returns the same dummy cell), so it can stand
// for fields far larger than memory; it records every index it is asked for.
template <typename _output_vector_t>
struct flat {
    using this_t = flat<_output_vector_t>;
    static constexpr bool is_initial = true;
    using contravariant_input_t = covfie::vector::scalar_d<covfie::vector::vector_d<std::size_t, 1>>;
    using covariant_output_t = covfie::vector::array_reference_vector_d<_output_vector_t>;
    using vector_t = std::decay_t<typename covariant_output_t::vector_t>;
    using configuration_t = covfie::utility::nd_size<1>;
    static constexpr uint32_t IO_MAGIC_HEADER = 0xAB01FF01;

    struct owning_data_t {
        using parent_t = this_t;
        owning_data_t()
            : m_log(std::make_shared<FlatLog>())
            , m_cell(std::make_shared<vector_t>())
        {
        }
        owning_data_t(const owning_data_t &) = default;
        owning_data_t(owning_data_t &&) = default;
        owning_data_t & operator=(const owning_data_t &) = default;
        owning_data_t & operator=(owning_data_t &&) = default;
        explicit owning_data_t(std::size_t n)
            : owning_data_t()
        {
            m_log->size = n;
        }
        explicit owning_data_t(configuration_t c)
            : owning_data_t(c[0])
        {
        }
        explicit owning_data_t(covfie::parameter_pack<configuration_t> && p)
            : owning_data_t(p.x[0])
        {
        }
        explicit owning_data_t(covfie::parameter_pack<owning_data_t> && p)
            : owning_data_t(std::move(p.x))
        {
        }
        configuration_t get_configuration() const
        {
            return {m_log->size};
        }
        static owning_data_t read_binary(std::istream &)
        {
            throw std::logic_error("probe::flat is not serialisable");
        }
        static void write_binary(std::ostream &, const owning_data_t &)
        {
            throw std::logic_error("probe::flat is not serialisable");
        }
        FlatLog & log() const
        {
            return *m_log;
        }
        std::shared_ptr<FlatLog> m_log;
        std::shared_ptr<vector_t> m_cell;
    };

    struct non_owning_data_t {
        using parent_t = this_t;
        non_owning_data_t(const owning_data_t & o)
            : m_log(o.m_log.get())
            , m_cell(o.m_cell.get())
        {
        }
        typename covariant_output_t::vector_t at(typename contravariant_input_t::vector_t i) const
        {
            m_log->ring[m_log->queries % 64] = i;
            ++m_log->queries;
            m_log->last = i;
            if (i >= m_log->size) {
                if (!m_log->oob++) m_log->first_oob = i;
            }
            return *m_cell;
        }
        FlatLog * m_log;
        vector_t * m_cell;
    };
};

struct NdLog {
    uint64_t queries = 0;
};

// N-dimensional value backend: counts the queries it receives and returns an injective
// function of the coordinate: out[j] = sum_k c[k] * W^k + j * W^N  (exact for the small
// coordinates the generators use; W = 64).
template <typename _input_vector_t, typename _output_vector_t>
struct nd {
    using this_t = nd<_input_vector_t, _output_vector_t>;
    static constexpr bool is_initial = true;
    using contravariant_input_t = covfie::vector::array_vector_d<_input_vector_t>;
    using covariant_output_t = covfie::vector::array_vector_d<_output_vector_t>;
    using configuration_t = std::monostate;
    static constexpr uint32_t IO_MAGIC_HEADER = 0xAB01FF02;

    template <typename C>
    static double value(const C & c, std::size_t j)
    {
        double v = 0, w = 1;
        for (std::size_t k = 0; k < contravariant_input_t::dimensions; ++k) {
            v += (double)c[k] * w;
            w *= 64.0;
        }
        return v + (double)j * w;
    }

    struct owning_data_t {
        using parent_t = this_t;
        owning_data_t()
            : m_log(std::make_shared<NdLog>())
        {
        }
        owning_data_t(const owning_data_t &) = default;
        owning_data_t(owning_data_t &&) = default;
        owning_data_t & operator=(const owning_data_t &) = default;
        owning_data_t & operator=(owning_data_t &&) = default;
        explicit owning_data_t(configuration_t)
            : owning_data_t()
        {
        }
        explicit owning_data_t(covfie::parameter_pack<configuration_t> &&)
            : owning_data_t()
        {
        }
        explicit owning_data_t(covfie::parameter_pack<owning_data_t> && p)
            : owning_data_t(std::move(p.x))
        {
        }
        configuration_t get_configuration() const
        {
            return {};
        }
        static owning_data_t read_binary(std::istream &)
        {
            throw std::logic_error("probe::nd is not serialisable");
        }
        static void write_binary(std::ostream &, const owning_data_t &)
        {
            throw std::logic_error("probe::nd is not serialisable");
        }
        NdLog & log() const
        {
            return *m_log;
        }
        std::shared_ptr<NdLog> m_log;
    };

    struct non_owning_data_t {
        using parent_t = this_t;
        non_owning_data_t(const owning_data_t & o)
            : m_log(o.m_log.get())
        {
        }
        typename covariant_output_t::vector_t at(typename contravariant_input_t::vector_t c) const
        {
            ++m_log->queries;
            typename covariant_output_t::vector_t rv;
            for (std::size_t j = 0; j < covariant_output_t::dimensions; ++j)
                rv[j] = static_cast<typename covariant_output_t::scalar_t>(value(c, j));
            return rv;
        }
        NdLog * m_log;
    };
};
}  // namespace probe
