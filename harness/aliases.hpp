// aliases.hpp -- the library's own names for vector descriptors (covfie::vector::float3, double4, size2, ...), the way
// user code spells them.  lib_alias<S, N>::type is the library alias where one exists, vector_d<S, N> otherwise; and
// alias_table_check() observes, at run time, that every alias denotes the scalar type and size its name says.
#pragma once
#include <cstddef>
#include <string>
#include <type_traits>

#include <covfie/core/vector.hpp>

#include "vh.hpp"

namespace al {
namespace cv = covfie::vector;
template <typename S, std::size_t N>
struct lib_alias {
    using type = cv::vector_d<S, N>;
};
#define AL_ROW(S, stem)                                                                                                \
    template <> struct lib_alias<S, 1> { using type = cv::stem##1; };                                                  \
    template <> struct lib_alias<S, 2> { using type = cv::stem##2; };                                                  \
    template <> struct lib_alias<S, 3> { using type = cv::stem##3; };                                                  \
    template <> struct lib_alias<S, 4> { using type = cv::stem##4; };
AL_ROW(float, float)
AL_ROW(double, double)
AL_ROW(int, int)
AL_ROW(unsigned int, uint)
AL_ROW(long, long)
AL_ROW(unsigned long, ulong)
#undef AL_ROW
template <typename S, std::size_t N>
using alias_t = typename lib_alias<S, N>::type;

template <typename A, typename S, std::size_t N>
inline void one_alias(const char * name)
{
    vh::ev();
    const bool ok = std::is_same_v<typename A::type, S> && A::size == N && sizeof(typename cv::array_vector_d<A>::vector_t) == sizeof(S) * N;
    if (!ok)
        vh::viol(std::string("alias-table:") + name, std::string("covfie::vector::") + name + " denotes a vector of " + std::to_string(A::size) + " x " + std::to_string(sizeof(typename A::type)) + "-byte " +
                                                         (std::is_floating_point_v<typename A::type> ? "floating" : std::is_signed_v<typename A::type> ? "signed" : "unsigned") + " scalars");
}
inline void alias_table_check()
{
#define AL_CHK(S, stem)                                                                                                \
    one_alias<cv::stem##1, S, 1>(#stem "1");                                                                           \
    one_alias<cv::stem##2, S, 2>(#stem "2");                                                                           \
    one_alias<cv::stem##3, S, 3>(#stem "3");                                                                           \
    one_alias<cv::stem##4, S, 4>(#stem "4");
    AL_CHK(float, float)
    AL_CHK(double, double)
    AL_CHK(int, int)
    AL_CHK(unsigned int, uint)
    AL_CHK(long, long)
    AL_CHK(unsigned long, ulong)
    AL_CHK(std::size_t, size)
#undef AL_CHK
}
}  // namespace al
