// vh.hpp -- common runtime-monitoring harness support (protocol, PRNG, death
// callbacks, per-case fork isolation).  Shares no code with covfie.
//
// Protocol (stdout, one record per line, parsed by vlib/core.py):
//   @EV <n>            oracle comparisons made (summed over shards)
//   @NT <n>            distinct non-trivial cases (hash set, per shard)
//   @STAT <name> <n>   named counter (summed)
//   @SET <name> <n>    distinct-value counter (hash set size)
//   @SAMPLE <text>     a literal case
//   @VIOL <key>\t<detail>
//   @SKIP <key>\t<detail>   instantiation deliberately not executed
//   @DONE              harness reached its end (absence => crash / early exit)
// On abnormal death the current case is written to stderr as
//   @DEATH kind=<...> case=<...>
#pragma once

#include <cinttypes>
#include <csignal>
#include <cstdarg>
#include <cstdint>
#include <cstdio>
#include <cstdlib>
#include <cstring>
#include <functional>
#include <map>
#include <set>
#include <sstream>
#include <string>
#include <unordered_set>
#include <vector>

#include <sys/wait.h>
#include <unistd.h>

#if defined(__SANITIZE_ADDRESS__) || defined(__SANITIZE_THREAD__)
#define VH_HAVE_SANITIZER 1
extern "C" void __sanitizer_set_death_callback(void (*)(void));
#endif

namespace vh {

// ---------------------------------------------------------------- PRNG
struct Rng {
    uint64_t s[4];
    static uint64_t splitmix(uint64_t & x)
    {
        uint64_t z = (x += 0x9e3779b97f4a7c15ull);
        z = (z ^ (z >> 30)) * 0xbf58476d1ce4e5b9ull;
        z = (z ^ (z >> 27)) * 0x94d049bb133111ebull;
        return z ^ (z >> 31);
    }
    explicit Rng(uint64_t seed = 1)
    {
        uint64_t x = seed;
        for (auto & v : s) v = splitmix(x);
    }
    static uint64_t rotl(uint64_t x, int k)
    {
        return (x << k) | (x >> (64 - k));
    }
    uint64_t next()
    {
        uint64_t r = rotl(s[1] * 5, 7) * 9, t = s[1] << 17;
        s[2] ^= s[0];
        s[3] ^= s[1];
        s[1] ^= s[2];
        s[0] ^= s[3];
        s[2] ^= t;
        s[3] = rotl(s[3], 45);
        return r;
    }
    // uniform in [0, n)
    uint64_t below(uint64_t n)
    {
        return n ? next() % n : 0;
    }
    // uniform in [lo, hi]
    int64_t range(int64_t lo, int64_t hi)
    {
        return lo + (int64_t)below((uint64_t)(hi - lo) + 1);
    }
    double unit()
    {
        return (double)(next() >> 11) * (1.0 / 9007199254740992.0);
    }
    bool coin()
    {
        return next() & 1;
    }
};

inline uint64_t fnv(const void * p, size_t n, uint64_t h = 1469598103934665603ull)
{
    const unsigned char * c = (const unsigned char *)p;
    for (size_t i = 0; i < n; ++i) {
        h ^= c[i];
        h *= 1099511628211ull;
    }
    return h;
}
inline uint64_t fnv(const std::string & s, uint64_t h = 1469598103934665603ull)
{
    return fnv(s.data(), s.size(), h);
}
inline uint64_t fnv(const char * s, uint64_t h = 1469598103934665603ull)
{
    return fnv(s, std::strlen(s), h);
}
template <typename T>
inline uint64_t mix(uint64_t h, const T & v)
{
    return fnv(&v, sizeof(T), h);
}

// ---------------------------------------------------------------- state
struct State {
    uint64_t ev = 0;
    uint64_t nt_enum = 0;  // non-trivial cases counted inside a never-repeating enumerator
    std::unordered_set<uint64_t> nt;
    std::map<std::string, uint64_t> stats;
    std::map<std::string, uint64_t> maxs;
    std::map<std::string, std::unordered_set<uint64_t>> sets;
    std::map<std::string, uint64_t> viol_count;
    std::map<std::string, int> sample_count;
    uint64_t seed = 1;
    bool thorough = false;
    std::string only;  // optional filter on instantiation names
    char current[512] = "(start)";
};
inline State & st()
{
    static State s;
    return s;
}

inline void ev(uint64_t n = 1)
{
    st().ev += n;
}
inline void nontrivial(uint64_t h)
{
    st().nt.insert(h);
}
// for exhaustive enumerations whose cases are distinct by construction (mixed-radix
// counters): count without storing 10^7 hashes
inline void nontrivial_enumerated(uint64_t n = 1)
{
    st().nt_enum += n;
}
inline void stat(const std::string & name, uint64_t n = 1)
{
    st().stats[name] += n;
}
inline void maxstat(const std::string & name, uint64_t v)
{
    uint64_t & m = st().maxs[name];
    if (v > m) m = v;
}
inline void seen(const std::string & name, uint64_t h)
{
    st().sets[name].insert(h);
}
inline void sample(const std::string & group, const std::string & text, int max_per_group = 2)
{
    int & c = st().sample_count[group];
    if (c++ < max_per_group) {
        std::printf("@SAMPLE %s: %s\n", group.c_str(), text.c_str());
    }
}
inline void viol(const std::string & key, const std::string & detail)
{
    uint64_t & c = st().viol_count[key];
    if (c++ < 3) {
        std::printf("@VIOL %s\t%s\n", key.c_str(), detail.c_str());
        std::fflush(stdout);
    }
}
inline void skip(const std::string & key, const std::string & detail)
{
    std::printf("@SKIP %s\t%s\n", key.c_str(), detail.c_str());
}
inline void set_case(const char * fmt, ...)
{
    va_list ap;
    va_start(ap, fmt);
    std::vsnprintf(st().current, sizeof(st().current), fmt, ap);
    va_end(ap);
}
inline bool selected(const std::string & name)
{
    return st().only.empty() || name.find(st().only) != std::string::npos;
}

// async-signal-safe-ish write of the current case
inline void death_note(const char * kind)
{
    char buf[700];
    int n = std::snprintf(buf, sizeof buf, "\n@DEATH kind=%s case=%s\n", kind, st().current);
    if (n > 0) {
        ssize_t r = ::write(2, buf, (size_t)n);
        (void)r;
    }
}
inline void on_sanitizer_death()
{
    death_note("sanitizer");
}
inline void on_signal(int sig)
{
    death_note(sig == SIGABRT ? "abort" : sig == SIGALRM ? "alarm" : "signal");
    std::signal(sig, SIG_DFL);
    ::raise(sig);
}

inline void flush_counters()
{
    State & s = st();
    std::printf("@EV %" PRIu64 "\n", s.ev);
    std::printf("@NT %" PRIu64 "\n", (uint64_t)s.nt.size() + s.nt_enum);
    for (auto & kv : s.stats) std::printf("@STAT %s %" PRIu64 "\n", kv.first.c_str(), kv.second);
    for (auto & kv : s.maxs) std::printf("@MAX %s %" PRIu64 "\n", kv.first.c_str(), kv.second);
    s.maxs.clear();
    for (auto & kv : s.sets) std::printf("@SET %s %zu\n", kv.first.c_str(), kv.second.size());
    for (auto & kv : s.viol_count)
        if (kv.second > 3) std::printf("@STAT viol_suppressed:%s %" PRIu64 "\n", kv.first.c_str(), kv.second - 3);
    s.ev = 0;
    s.nt_enum = 0;
    s.nt.clear();
    s.stats.clear();
    s.sets.clear();
}

inline void init(int argc, char ** argv)
{
    State & s = st();
    if (const char * e = std::getenv("VERIF_SEED")) s.seed = std::strtoull(e, nullptr, 10);
    if (const char * e = std::getenv("VERIF_TIER")) s.thorough = std::strcmp(e, "thorough") == 0;
    if (const char * e = std::getenv("VH_ONLY")) s.only = e;
    for (int i = 1; i < argc; ++i) {
        if (!std::strcmp(argv[i], "--thorough")) s.thorough = true;
        if (!std::strcmp(argv[i], "--quick")) s.thorough = false;
        if (!std::strcmp(argv[i], "--seed") && i + 1 < argc) s.seed = std::strtoull(argv[++i], nullptr, 10);
        if (!std::strcmp(argv[i], "--only") && i + 1 < argc) s.only = argv[++i];
    }
    std::setvbuf(stdout, nullptr, _IOFBF, 1 << 16);
#ifdef VH_HAVE_SANITIZER
    __sanitizer_set_death_callback(on_sanitizer_death);
#endif
    std::signal(SIGABRT, on_signal);
#ifndef VH_HAVE_SANITIZER
    std::signal(SIGSEGV, on_signal);
    std::signal(SIGBUS, on_signal);
    std::signal(SIGFPE, on_signal);
#endif
}

inline int finish()
{
    flush_counters();
    std::printf("@DONE\n");
    std::fflush(stdout);
    return 0;
}

// ---------------------------------------------------------------- fork isolation
// Runs f in a forked child.  The child's protocol lines go to the shared stdout.
// Returns: 0 child exited 0; >0 exit code; <0 negative signal number; -1000 watchdog.
struct ChildResult {
    int code;  // exit code, or -signal, or -1000 for watchdog
    bool ok() const
    {
        return code == 0;
    }
};
inline ChildResult in_child(const std::function<int()> & f, unsigned watchdog_s = 120)
{
    std::fflush(stdout);
    std::fflush(stderr);
    pid_t pid = ::fork();
    if (pid < 0) {
        std::perror("fork");
        std::exit(2);
    }
    if (pid == 0) {
        // fresh counters in the child: the parent keeps its own
        State & s = st();
        s.ev = 0;
        s.nt_enum = 0;
        s.nt.clear();
        s.stats.clear();
        s.sets.clear();
        s.viol_count.clear();
        ::alarm(watchdog_s);
        int rc = f();
        flush_counters();
        std::fflush(stdout);
        std::fflush(stderr);
        ::_exit(rc);
    }
    int status = 0;
    while (::waitpid(pid, &status, 0) < 0) {
    }
    if (WIFEXITED(status)) return {WEXITSTATUS(status)};
    if (WIFSIGNALED(status)) {
        int sig = WTERMSIG(status);
        return {sig == SIGALRM ? -1000 : -sig};
    }
    return {-999};
}

// ---------------------------------------------------------------- formatting helpers
inline std::string hexfloat(double v)
{
    char b[64];
    std::snprintf(b, sizeof b, "%a", v);
    return b;
}
template <typename It>
inline std::string join(It b, It e, const char * sep = ",")
{
    std::ostringstream o;
    bool first = true;
    for (; b != e; ++b) {
        if (!first) o << sep;
        first = false;
        o << +*b;
    }
    return o.str();
}
template <typename C>
inline std::string join(const C & c, const char * sep = ",")
{
    return join(std::begin(c), std::end(c), sep);
}
template <typename A>
inline std::string jarr(const A & a, size_t n)
{
    std::ostringstream o;
    o << "(";
    for (size_t i = 0; i < n; ++i) {
        if (i) o << ",";
        o << +a[i];
    }
    o << ")";
    return o.str();
}

template <typename T>
struct type_name_of;
#define VH_TN(T, S)                           \
    template <>                               \
    struct type_name_of<T> {                  \
        static const char * get()             \
        {                                     \
            return S;                         \
        }                                     \
    };
VH_TN(float, "float")
VH_TN(double, "double")
VH_TN(int, "int")
VH_TN(unsigned, "unsigned")
VH_TN(long, "long")
VH_TN(unsigned long, "size_t")
VH_TN(unsigned char, "uint8")
VH_TN(unsigned short, "uint16")
VH_TN(short, "int16")
VH_TN(signed char, "int8")
#undef VH_TN
template <typename T>
inline const char * tn()
{
    return type_name_of<T>::get();
}

}  // namespace vh
