// zoo_drivers.hpp -- generic drivers over generated stack descriptions (gen/zoo.py).
// A description Z provides: field_t, make(), fill(f), make_model(), config_mismatch(f),
// name(), type_string(), depth, has_array (+ array_t, storage(f), array_len, array_m).
#pragma once
#include <cstring>
#include <sstream>
#include <type_traits>

#include "model.hpp"
#include "vh.hpp"

namespace zoo {
using model::Q;

template <typename T>
struct scalar_kind {
    static constexpr bool real = std::is_floating_point_v<T>;
    static constexpr bool sign = std::is_signed_v<T>;
};

template <class F>
struct traits {
    using backend_t = typename F::backend_t;
    using in_t = typename backend_t::contravariant_input_t;
    using out_t = typename backend_t::covariant_output_t;
    using scalar_t = typename in_t::scalar_t;
    using coord_t = typename F::coordinate_t;
    static constexpr std::size_t N = in_t::dimensions;
    static constexpr std::size_t M = out_t::dimensions;
    static constexpr bool scalar_coord = std::is_scalar_v<coord_t>;
};

// propose a coordinate: multiples of 1/4 for real types, small integers otherwise
template <class F>
inline typename traits<F>::coord_t propose(vh::Rng & rng, model::Vec & mc)
{
    using T = traits<F>;
    using S = typename T::scalar_t;
    mc.resize(T::N);
    typename T::coord_t c{};
    const int mode = (int)rng.below(4);
    for (std::size_t k = 0; k < T::N; ++k) {
        S v;
        if constexpr (std::is_floating_point_v<S>) {
            int q = mode == 0 ? (int)rng.range(-12, 32) : mode == 1 ? (int)rng.range(0, 8) : (int)rng.range(0, 16);
            if (mode == 3 && rng.coin()) q = 4 * (q / 4);  // lattice points
            v = (S)q / 4;
        } else if constexpr (std::is_signed_v<S>) {
            v = (S)(mode == 0 ? rng.range(-3, 8) : rng.range(0, 4));
        } else {
            v = (S)(mode == 0 ? rng.range(0, 8) : rng.range(0, 4));
        }
        mc[k] = (Q)v;
        if constexpr (T::scalar_coord)
            c = v;
        else
            c[k] = v;
    }
    return c;
}

template <class F, std::size_t... Is>
inline typename F::output_t at_variadic(const typename F::view_t & v, const typename traits<F>::coord_t & c, std::index_sequence<Is...>)
{
    return v.at(c[Is]...);
}

template <class V>
inline std::string show_vec(const V & v, std::size_t n)
{
    std::ostringstream o;
    o << "(";
    for (std::size_t i = 0; i < n; ++i) o << (i ? "," : "") << (double)v[i];
    o << ")";
    return o.str();
}
inline std::string show_q(const model::Vec & v)
{
    std::ostringstream o;
    o << "(";
    for (std::size_t i = 0; i < v.size(); ++i) o << (i ? "," : "") << (double)v[i];
    o << ")";
    return o.str();
}

// compares view.at(c) with the model at `n` proposed coordinates; returns number of in-domain hits
template <class Z>
inline unsigned compare_with_model(const typename Z::field_t & f, const model::Node & m, vh::Rng & rng, unsigned n, const std::string & key, const char * phase)
{
    using F = typename Z::field_t;
    using T = traits<F>;
    typename F::view_t view(f);
    unsigned hits = 0;
    for (unsigned q = 0; q < n; ++q) {
        model::Vec mc;
        typename T::coord_t c = propose<F>(rng, mc);
        model::Result r = m.at(mc);
        if (!r.ok) {
            vh::stat("out_of_domain_skipped");
            continue;
        }
        ++hits;
        vh::set_case("%s %s c=%s", Z::name(), phase, show_q(mc).c_str());
        typename F::output_t got = view.at(c);
        vh::ev();
        bool ok = r.v.size() == T::M;
        if (ok) {
            model::Vec gv(T::M);
            for (std::size_t j = 0; j < T::M; ++j) gv[j] = (Q)got[j];
            ok = r.admits(gv);
            if (!r.alts.empty()) vh::stat("lookups_on_a_nearest_neighbour_tie");
        }
        if (!ok) {
            vh::viol(key, std::string(Z::type_string()) + " [" + Z::name() + "] " + phase + " c=" + show_q(mc) + " got=" + show_vec(got, T::M) + " model=" + show_q(r.v));
            return hits;
        }
        if constexpr (!T::scalar_coord) {
            if (q % 4 == 0) {
                typename F::output_t g2 = at_variadic<F>(view, c, std::make_index_sequence<T::N>{});
                vh::ev();
                model::Vec gv2(T::M);
                for (std::size_t j = 0; j < T::M; ++j) gv2[j] = (Q)g2[j];
                if (!r.admits(gv2)) {
                    vh::viol(key + ":variadic-at", std::string(Z::type_string()) + " c=" + show_q(mc));
                    return hits;
                }
            }
        }
        if (hits == 3 && std::strcmp(phase, "lookup") == 0) vh::sample(Z::name(), std::string(Z::type_string()) + " c=" + show_q(mc) + " -> " + show_q(r.v), 1);
    }
    return hits;
}

// ------------------------------------------------------------------ C02
template <class Z>
inline void drive_c02()
{
    if (!vh::selected(Z::name())) return;
    vh::Rng rng(vh::st().seed * 1299709 + vh::fnv(Z::name()));
    vh::set_case("%s construct", Z::name());
    typename Z::field_t f = Z::make();
    Z::fill(f);
    model::P m = Z::make_model();
    unsigned n = vh::st().thorough ? 500 : 200;
    unsigned hits = compare_with_model<Z>(f, *m, rng, n, std::string("lookup:") + m->describe(), "lookup");
    if (hits < 8) {
        // widen: more proposals before giving up on this stack
        hits += compare_with_model<Z>(f, *m, rng, 20 * n, std::string("lookup:") + m->describe(), "lookup");
    }
    vh::stat("in_domain_lookups", hits);
    vh::stat("stacks");
    if (hits < 8) vh::stat("stacks_with_fewer_than_8_in_domain_lookups");
    if (Z::depth >= 2 && model::count_changing(m.get()) >= 2 && hits >= 8) vh::nontrivial(vh::fnv(Z::name()));
}

// ------------------------------------------------------------------ C17
template <class Z, int I>
inline void rebuild_one(const typename Z::field_t & f, const model::Node & m, vh::Rng & rng)
{
    vh::set_case("%s rebuild: %s", Z::name(), Z::rebuild_form_name(I));
    typename Z::field_t g = Z::template rebuild_form<I>(f);
    int gb = Z::config_mismatch(g);
    vh::ev(Z::depth);
    vh::stat("rebuilds_through_layer_constructors");
    if (gb >= 0) vh::viol("rebuild:configuration", std::string(Z::type_string()) + " [" + Z::rebuild_form_name(I) + "] layer " + std::to_string(gb));
    compare_with_model<Z>(g, m, rng, 40, "rebuild:lookup", Z::rebuild_form_name(I));
}
template <class Z, int... Is>
inline void rebuild_all(const typename Z::field_t & f, const model::Node & m, vh::Rng & rng, std::integer_sequence<int, Is...>)
{
    (rebuild_one<Z, Is>(f, m, rng), ...);
}

template <class Z>
inline void drive_c17()
{
    if (!vh::selected(Z::name())) return;
    vh::Rng rng(vh::st().seed * 15487469 + vh::fnv(Z::name()));
    vh::set_case("%s configuration read-back", Z::name());
    typename Z::field_t f = Z::make();
    Z::fill(f);
    int bad = Z::config_mismatch(f);
    vh::ev(Z::depth);
    {
        // the positional helper must deliver its i-th argument to the i-th layer
        vh::set_case("%s make_parameter_pack_for", Z::name());
        typename Z::field_t h = Z::make_via_helper();
        Z::fill(h);
        int hb = Z::config_mismatch(h);
        vh::ev(Z::depth);
        if (hb >= 0) vh::viol("parameter-pack-helper", std::string(Z::type_string()) + " [" + Z::name() + "] layer " + std::to_string(hb) + " did not receive the argument at its position");
        model::P m = Z::make_model();
        compare_with_model<Z>(h, *m, rng, 60, "parameter-pack-helper:lookup", "helper-built");
        // rebuild from the reported configurations + storage: equal to the original at every proposed coordinate
        vh::set_case("%s rebuild", Z::name());
        typename Z::field_t g = Z::rebuild(f);
        int gb = Z::config_mismatch(g);
        vh::ev(Z::depth);
        if (gb >= 0) vh::viol("rebuild:configuration", std::string(Z::type_string()) + " layer " + std::to_string(gb));
        unsigned hits = compare_with_model<Z>(g, *m, rng, 150, "rebuild:lookup", "rebuilt");
        compare_with_model<Z>(f, *m, rng, 60, "original:lookup", "original");
        vh::stat("rebuild_in_domain_lookups", hits);
        // ... and through every other constructor the layers offer for that purpose
        rebuild_all<Z>(f, *m, rng, std::make_integer_sequence<int, Z::rebuild_forms>{});
        compare_with_model<Z>(f, *m, rng, 40, "original:lookup", "original after the rebuilds");
        // a field that was assigned over reports the configuration of its source, whatever it held before:
        // a larger field of the same type (other extents, boxes, defaults, matrices in every layer) shrunk onto f,
        // and a field that grew to that larger one first
        {
            vh::set_case("%s configuration read-back after copy assignment over a larger field", Z::name());
            typename Z::field_t o = Z::template make_other<>();
            o = f;
            int ob = Z::config_mismatch(o);
            vh::ev(Z::depth);
            vh::stat("readbacks_after_assignment");
            if (ob >= 0) vh::viol("configuration-readback:assigned", std::string(Z::type_string()) + " [" + Z::name() + "] layer " + std::to_string(ob) + " reports something other than its source's configuration after copy assignment over a larger field");
            compare_with_model<Z>(o, *m, rng, 40, "assigned:lookup", "copy-assigned over a larger field");
            vh::set_case("%s configuration read-back after growing and shrinking by assignment", Z::name());
            typename Z::field_t q = Z::make();
            {
                typename Z::field_t big = Z::template make_other<>();
                q = big;
            }
            q = f;
            int qb = Z::config_mismatch(q);
            vh::ev(Z::depth);
            vh::stat("readbacks_after_assignment");
            if (qb >= 0) vh::viol("configuration-readback:assigned", std::string(Z::type_string()) + " [" + Z::name() + "] layer " + std::to_string(qb) + " reports something other than its source's configuration after growing and shrinking by copy assignment");
            typename Z::field_t rb = Z::rebuild(q);
            int rbb = Z::config_mismatch(rb);
            if (rbb >= 0) vh::viol("rebuild:configuration", std::string(Z::type_string()) + " layer " + std::to_string(rbb) + " (rebuilt from a field that grew and shrank by assignment)");
            compare_with_model<Z>(rb, *m, rng, 40, "rebuild:lookup", "rebuilt from an assigned-over field");
        }
    }
    if (bad >= 0) vh::viol("configuration-readback", std::string(Z::type_string()) + " [" + Z::name() + "] layer " + std::to_string(bad) + " (counted from the outside) reports a configuration other than the one it was built with");
    vh::stat("stacks");
    vh::stat("layers", Z::depth);
    if (Z::depth >= 2) vh::nontrivial(vh::fnv(Z::name()));
    vh::sample("readback", std::string(Z::type_string()) + " depth=" + std::to_string(Z::depth), 3);
}
}  // namespace zoo
