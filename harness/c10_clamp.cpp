// C10: clamping makes every coordinate safe.
#include <cmath>
#include <cstdint>
#include <limits>
#include <memory>
#include <sstream>
#include <variant>
#include <vector>

#include <covfie/core/backend/primitive/array.hpp>
#include <covfie/core/backend/primitive/identity.hpp>
#include <covfie/core/backend/transformer/clamp.hpp>
#include <covfie/core/backend/transformer/linear.hpp>
#include <covfie/core/backend/transformer/morton.hpp>
#include <covfie/core/backend/transformer/nearest_neighbour.hpp>
#include <covfie/core/backend/transformer/strided.hpp>
#include <covfie/core/field.hpp>
#include <covfie/core/field_view.hpp>

#include "interp_ref.hpp"
#include "probes.hpp"
#include "vh.hpp"
#include "aliases.hpp"

namespace cb = covfie::backend;
namespace cv = covfie::vector;
using iref::Q;

template <typename V>
static V step(V b, int dir)
{
    if constexpr (std::is_floating_point_v<V>) {
        return std::nextafter(b, dir > 0 ? std::numeric_limits<V>::infinity() : -std::numeric_limits<V>::infinity());
    } else {
        if (dir > 0) return b == std::numeric_limits<V>::max() ? b : (V)(b + 1);
        return b == std::numeric_limits<V>::lowest() ? b : (V)(b - 1);
    }
}

template <typename V>
static void catalogue(std::vector<V> & cat, V lo, V hi)
{
    using L = std::numeric_limits<V>;
    for (V x : {lo, step(lo, -1), step(lo, +1), hi, step(hi, -1), step(hi, +1), (V)(lo / 2 + hi / 2), L::max(), step(L::max(), -1), L::lowest(),
                step(L::lowest(), +1), (V)0, (V)1})
        cat.push_back(x);
    if constexpr (std::is_signed_v<V>) cat.push_back((V)-1);
    if constexpr (std::is_floating_point_v<V>) {
        cat.push_back(L::infinity());
        cat.push_back(-L::infinity());
        cat.push_back(L::denorm_min());
        cat.push_back(-L::denorm_min());
        cat.push_back(L::min());
        cat.push_back(-(V)0);
    }
}

template <typename V>
static V ref_clamp(V c, V lo, V hi)
{
    return c < lo ? lo : (hi < c ? hi : c);
}

template <typename V>
static V pick_bound(vh::Rng & rng)
{
    switch (rng.below(8)) {
    case 0: return std::numeric_limits<V>::lowest();
    case 1: return std::numeric_limits<V>::max();
    default:
        if constexpr (std::is_floating_point_v<V>)
            return (V)(rng.range(-4000, 4000)) / 8;
        else if constexpr (std::is_signed_v<V>)
            return (V)rng.range(-1000, 1000);
        else
            return (V)rng.range(0, 2000);
    }
}

// ------------------------------------------------------------------ clamp<identity<V^N>>
template <typename V, std::size_t N>
static void over_identity(vh::Rng & rng, unsigned nboxes)
{
    // the coordinate descriptor as user code spells it: covfie::vector::int3, ulong4, float2, ... (aliases.hpp)
    using backend_t = cb::clamp<cb::identity<al::alias_t<V, N>>>;
    using field_t = covfie::field<backend_t>;
    std::string name = std::string("clamp<identity<") + vh::tn<V>() + "," + std::to_string(N) + ">>";
    if (!vh::selected(name)) return;
    std::unique_ptr<field_t> prev;
    for (unsigned b = 0; b < nboxes; ++b) {
        typename backend_t::configuration_t cfg;
        for (std::size_t k = 0; k < N; ++k) {
            V a = pick_bound<V>(rng), c = pick_bound<V>(rng);
            if (c < a) std::swap(a, c);
            if (rng.below(6) == 0) c = a;
            cfg.min[k] = a;
            cfg.max[k] = c;
        }
        typename backend_t::configuration_t handed = cfg;
        if (b % 4 == 3) {
            // a cubic box written with one scalar per member (covfie::array's broadcasting constructor); `cfg` keeps
            // what the user meant, component by component, and stays the oracle's box
            V lo = pick_bound<V>(rng), hi = pick_bound<V>(rng);
            if (hi < lo) std::swap(lo, hi);
            if (lo == 0) lo = (V)1;
            if (hi < lo) hi = lo;
            for (std::size_t k = 0; k < N; ++k) {
                cfg.min[k] = lo;
                cfg.max[k] = hi;
            }
            handed.min = typename field_t::coordinate_t(lo);
            handed.max = typename field_t::coordinate_t(hi);
            if (b % 8 == 7) {
                // ... the scalar being of ANOTHER arithmetic type than the coordinate's, as in `{{1}, {5}}` for a box of
                // longs or doubles (small integers, exact in every type involved)
                const int ilo = 1 + (int)rng.below(4), ihi = ilo + (int)rng.below(6);
                for (std::size_t k = 0; k < N; ++k) {
                    cfg.min[k] = (V)ilo;
                    cfg.max[k] = (V)ihi;
                }
                if constexpr (std::is_same_v<V, int>) {
                    handed.min = typename field_t::coordinate_t((short)ilo);
                    handed.max = typename field_t::coordinate_t((unsigned char)ihi);
                } else if constexpr (std::is_floating_point_v<V>) {
                    handed.min = typename field_t::coordinate_t(ilo);
                    if constexpr (std::is_same_v<V, float>)
                        handed.max = typename field_t::coordinate_t((long)ihi);
                    else
                        handed.max = typename field_t::coordinate_t((float)ihi);
                } else {
                    handed.min = typename field_t::coordinate_t(ilo);
                    handed.max = typename field_t::coordinate_t(ihi);
                }
            }
        }
        vh::set_case("%s box#%u", name.c_str(), b);
        // two out of three fields reach their box by ASSIGNMENT over the previous iteration's field (another box):
        // nothing of the old box may survive
        field_t built(covfie::make_parameter_pack(typename backend_t::configuration_t(handed), std::monostate{}));
        std::unique_ptr<field_t> target = std::move(prev);
        field_t * use = &built;
        if (target && b % 3 == 1) {
            *target = built;
            use = target.get();
        } else if (target && b % 3 == 2) {
            *target = std::move(built);
            use = target.get();
        }
        field_t & f = *use;
        prev = std::make_unique<field_t>(f);
        typename field_t::view_t view(f);
        std::vector<V> cat[N];
        uint64_t total = 1;
        for (std::size_t k = 0; k < N; ++k) {
            catalogue<V>(cat[k], cfg.min[k], cfg.max[k]);
            total *= cat[k].size();
        }
        uint64_t nq = total <= 3000 ? total : 3000;
        for (uint64_t q = 0; q < nq; ++q) {
            typename field_t::coordinate_t c;
            uint64_t r = total <= 3000 ? q : rng.below(total);
            bool outside = false;
            for (std::size_t k = 0; k < N; ++k) {
                c[k] = cat[k][r % cat[k].size()];
                r /= cat[k].size();
                if (q % 7 == 3) {  // sprinkle random values too
                    if constexpr (std::is_floating_point_v<V>)
                        c[k] = (V)std::ldexp(rng.unit() - 0.5, (int)rng.range(-30, 60));
                    else
                        c[k] = (V)rng.next();
                }
                outside = outside || c[k] < cfg.min[k] || cfg.max[k] < c[k];
            }
            typename field_t::output_t got = view.at(c);
            vh::ev();
            if (outside) vh::nontrivial(vh::fnv(&c, sizeof c, vh::fnv(&cfg, sizeof cfg, vh::fnv(name))));
            for (std::size_t k = 0; k < N; ++k) {
                V want = ref_clamp(c[k], cfg.min[k], cfg.max[k]);
                if (!(got[k] == want)) {
                    vh::viol(name, "box=[" + vh::jarr(cfg.min, N) + "," + vh::jarr(cfg.max, N) + "] c=" + vh::jarr(c, N) + " delegated=" + vh::jarr(got, N) + " axis " + std::to_string(k) + " want " + std::to_string(want));
                    break;
                }
            }
            if (b == 1 && q == 11) vh::sample(name, "box=[" + vh::jarr(cfg.min, N) + "," + vh::jarr(cfg.max, N) + "] c=" + vh::jarr(c, N) + " -> " + vh::jarr(got, N), 1);
        }
    }
}

// ------------------------------------------------------------------ clamp over array / probe storage
template <std::size_t N, bool MORTON, bool PROBE>
static void over_storage(vh::Rng & rng, unsigned nfields)
{
    using idx_d = cv::vector_d<std::size_t, N>;
    using store_t = std::conditional_t<PROBE, probe::flat<cv::float1>, cb::array<cv::float1>>;
    using order_t = std::conditional_t<MORTON, cb::morton<idx_d, store_t>, cb::strided<idx_d, store_t>>;
    using backend_t = cb::clamp<order_t>;
    using field_t = covfie::field<backend_t>;
    std::string name = std::string("clamp<") + (MORTON ? "morton" : "strided") + "<" + (PROBE ? "probe" : "array") + ">>,N=" + std::to_string(N);
    if (!vh::selected(name)) return;
    std::unique_ptr<field_t> prev;
    for (unsigned fi = 0; fi < nfields; ++fi) {
        covfie::utility::nd_size<N> ext;
        typename backend_t::configuration_t cfg;
        std::size_t mx = 0, len = 1;
        for (std::size_t k = 0; k < N; ++k) {
            ext[k] = 1 + rng.below(PROBE ? (1ull << (40 / N)) : (N <= 2 ? 24 : 6));
            mx = ext[k] > mx ? ext[k] : mx;
            cfg.min[k] = rng.below(3) ? 0 : rng.below(ext[k]);
            cfg.max[k] = rng.below(3) ? ext[k] - 1 : cfg.min[k] + rng.below(ext[k] - cfg.min[k]);
        }
        if (MORTON) {
            std::size_t side = 1;
            while (side < mx) side *= 2;
            for (std::size_t k = 0; k < N; ++k) len *= side;
        } else {
            for (std::size_t k = 0; k < N; ++k) len *= ext[k];
        }
        vh::set_case("%s field#%u extents=%s", name.c_str(), fi, vh::jarr(ext, N).c_str());
        field_t built(covfie::make_parameter_pack(typename backend_t::configuration_t(cfg), typename order_t::configuration_t(ext), covfie::utility::nd_size<1>{len}));
        // (as above: two out of three fields are assigned over the previous one, which had other extents and another box)
        std::unique_ptr<field_t> target = std::move(prev);
        field_t * use = &built;
        if (target && fi % 3 == 1) {
            *target = built;
            use = target.get();
        } else if (target && fi % 3 == 2) {
            *target = std::move(built);
            use = target.get();
        }
        field_t & f = *use;
        prev = std::make_unique<field_t>(f);
        typename order_t::non_owning_data_t raw(f.backend().get_backend());
        if constexpr (!PROBE) {
            uint64_t c[N] = {};
            for (;;) {
                typename order_t::contravariant_input_t::vector_t cc;
                uint64_t id = 0;
                for (std::size_t k = 0; k < N; ++k) {
                    cc[k] = c[k];
                    id = id * 32 + c[k];
                }
                raw.at(cc)[0] = (float)id;
                std::size_t k = 0;
                while (k < N && ++c[k] >= ext[k]) c[k++] = 0;
                if (k == N) break;
            }
        }
        // every second array-backed field is looked up through a copy that went through dump + load
        std::unique_ptr<field_t> reloaded;
        if constexpr (!PROBE) {
            if (fi & 1) {
                std::stringstream ss(std::ios::in | std::ios::out | std::ios::binary);
                f.dump(ss);
                reloaded = std::make_unique<field_t>(static_cast<std::istream &>(ss));
            }
        }
        typename field_t::view_t view(reloaded ? *reloaded : f);
        std::vector<std::size_t> cat[N];
        for (std::size_t k = 0; k < N; ++k) {
            catalogue<std::size_t>(cat[k], cfg.min[k], cfg.max[k]);
            cat[k].push_back(ext[k]);
            cat[k].push_back(ext[k] - 1);
            cat[k].push_back((std::size_t)1 << 63);
            cat[k].push_back((std::size_t)1 << 32);
        }
        for (unsigned q = 0; q < 1500; ++q) {
            typename field_t::coordinate_t c;
            bool outside = false;
            uint64_t id = 0;
            std::size_t cl[N];
            for (std::size_t k = 0; k < N; ++k) {
                c[k] = rng.below(4) ? cat[k][rng.below(cat[k].size())] : (std::size_t)rng.next();
                outside = outside || c[k] < cfg.min[k] || cfg.max[k] < c[k];
                cl[k] = ref_clamp<std::size_t>(c[k], cfg.min[k], cfg.max[k]);
                id = id * 32 + cl[k];
            }
            vh::ev();
            if (outside) vh::nontrivial(vh::fnv(&c, sizeof c, vh::fnv(&cfg, sizeof cfg, vh::fnv(&ext, sizeof ext, vh::fnv(name)))));
            std::string d = "extents=" + vh::jarr(ext, N) + " box=[" + vh::jarr(cfg.min, N) + "," + vh::jarr(cfg.max, N) + "] c=" + vh::jarr(c, N);
            if constexpr (PROBE) {
                probe::FlatLog & log = f.backend().get_backend().get_backend().log();
                uint64_t oob0 = log.oob;
                (void)view.at(c);
                // expected flat index of the clamped coordinate, from the same layer's own view
                uint64_t got_idx = log.last;
                typename order_t::contravariant_input_t::vector_t cc;
                for (std::size_t k = 0; k < N; ++k) cc[k] = cl[k];
                (void)raw.at(cc);
                if (log.oob != oob0) vh::viol(name + ":index-out-of-storage", d + " flat index " + std::to_string(log.first_oob) + " >= " + std::to_string(log.size));
                else if (got_idx != log.last) vh::viol(name + ":wrong-cell", d + " flat index " + std::to_string(got_idx) + " but clamped coordinate lives at " + std::to_string(log.last));
            } else {
                float got = view.at(c)[0];
                if (got != (float)id) vh::viol(name + ":wrong-cell", d + " got id " + std::to_string(got) + " want " + std::to_string((float)id));
            }
            if (fi == 1 && q == 3) vh::sample(name, d, 1);
        }
    }
}

// ------------------------------------------------------------------ clamp above an interpolator
template <typename R, std::size_t N, bool LINEAR>
static void over_interp(vh::Rng & rng, unsigned nfields)
{
    using idx_d = cv::vector_d<std::size_t, N>;
    using order_t = cb::strided<idx_d, cb::array<cv::float1>>;
    using interp_t = std::conditional_t<LINEAR, cb::linear<order_t, cv::vector_d<R, N>>, cb::nearest_neighbour<order_t, cv::vector_d<R, N>>>;
    using backend_t = cb::clamp<interp_t>;
    using field_t = covfie::field<backend_t>;
    const R inf = std::numeric_limits<R>::infinity();
    std::string name = std::string("clamp<") + (LINEAR ? "linear" : "nearest_neighbour") + "<strided<array>>>," + vh::tn<R>() + ",N=" + std::to_string(N);
    if (!vh::selected(name)) return;
    for (unsigned fi = 0; fi < nfields; ++fi) {
        covfie::utility::nd_size<N> ext;
        typename backend_t::configuration_t cfg;
        for (std::size_t k = 0; k < N; ++k) {
            ext[k] = 2 + rng.below(N <= 2 ? 12 : 5);
            cfg.min[k] = 0;
            // linear needs i+1 in range: box [0, extent-1) ; nearest neighbour: [0, extent-1]
            cfg.max[k] = LINEAR ? std::nextafter((R)(ext[k] - 1), -inf) : (R)(ext[k] - 1);
        }
        vh::set_case("%s field#%u extents=%s", name.c_str(), fi, vh::jarr(ext, N).c_str());
        field_t f(covfie::make_parameter_pack(typename backend_t::configuration_t(cfg), std::monostate{}, typename order_t::configuration_t(ext)));
        typename order_t::non_owning_data_t raw(f.backend().get_backend().get_backend());
        {
            uint64_t c[N] = {};
            for (;;) {
                typename order_t::contravariant_input_t::vector_t cc;
                for (std::size_t k = 0; k < N; ++k) cc[k] = c[k];
                raw.at(cc)[0] = (float)(rng.range(-1000, 1000));
                std::size_t k = 0;
                while (k < N && ++c[k] >= ext[k]) c[k++] = 0;
                if (k == N) break;
            }
        }
        typename field_t::view_t view(f);
        std::vector<R> cat[N];
        for (std::size_t k = 0; k < N; ++k) catalogue<R>(cat[k], cfg.min[k], cfg.max[k]);
        for (unsigned q = 0; q < 1500; ++q) {
            typename field_t::coordinate_t c;
            bool outside = false;
            Q frac[N];
            uint64_t base[N];
            for (std::size_t k = 0; k < N; ++k) {
                c[k] = rng.below(3) ? cat[k][rng.below(cat[k].size())] : (R)(rng.unit() * (double)(ext[k] + 2) - 1.0);
                outside = outside || c[k] < cfg.min[k] || cfg.max[k] < c[k];
                R cl = ref_clamp<R>(c[k], cfg.min[k], cfg.max[k]);
                if (LINEAR) {
                    Q fl = floorq((Q)cl);
                    base[k] = (uint64_t)fl;
                    frac[k] = (Q)cl - fl;
                } else {
                    Q fl = floorq((Q)cl + (Q)0.5);  // either neighbour is admissible on a tie; handled below
                    base[k] = (uint64_t)fl;
                    frac[k] = (Q)cl;
                }
            }
            float got = view.at(c)[0];
            vh::ev();
            if (outside) vh::nontrivial(vh::fnv(&c, sizeof c, vh::fnv(&ext, sizeof ext, vh::fnv(name))));
            std::string d = "extents=" + vh::jarr(ext, N) + " c=" + vh::jarr(c, N) + " got=" + std::to_string(got);
            if (LINEAR) {
                iref::Result r = iref::nlinear(N, frac, [&](uint64_t bits) -> Q {
                    typename order_t::contravariant_input_t::vector_t cc;
                    for (std::size_t k = 0; k < N; ++k) cc[k] = base[k] + ((bits >> k) & 1);
                    return (Q)raw.at(cc)[0];
                });
                Q bnd = iref::bound<R, float>(N, r.absum, r.vsum);
                if (!(fabsq((Q)got - r.exact) <= bnd)) vh::viol(name, d + " exact=" + iref::qs(r.exact));
            } else {
                // admissible cells: within 1/2 of the clamped coordinate on every axis
                bool ok = false;
                for (uint64_t bits = 0; bits < (1ull << N) && !ok; ++bits) {
                    typename order_t::contravariant_input_t::vector_t cc;
                    bool adm = true;
                    for (std::size_t k = 0; k < N; ++k) {
                        uint64_t i = base[k] - ((bits >> k) & 1);
                        adm = adm && i < ext[k] && fabsq((Q)i - frac[k]) <= (Q)0.5;
                        cc[k] = i;
                    }
                    ok = adm && raw.at(cc)[0] == got;
                }
                if (!ok) vh::viol(name, d + " is not the value of a lattice point within 1/2 of the clamped coordinate");
            }
            if (fi == 1 && q == 3) vh::sample(name, d, 1);
        }
    }
}

// ------------------------------------------------------------------ clamp BELOW an interpolator
// interp<clamp<strided<array>>>: the interpolator turns a real coordinate into integer ones, the clamp
// beneath makes every one of them safe (x >= 0, bounded by 2^32 so the float->index conversion is defined)
template <typename R, std::size_t N, bool LINEAR>
static void under_interp(vh::Rng & rng, unsigned nfields)
{
    using idx_d = cv::vector_d<std::size_t, N>;
    using order_t = cb::strided<idx_d, cb::array<cv::float1>>;
    using clamp_t = cb::clamp<order_t>;
    using backend_t = std::conditional_t<LINEAR, cb::linear<clamp_t, cv::vector_d<R, N>>, cb::nearest_neighbour<clamp_t, cv::vector_d<R, N>>>;
    using field_t = covfie::field<backend_t>;
    std::string name = std::string(LINEAR ? "linear" : "nearest_neighbour") + "<clamp<strided<array>>>," + vh::tn<R>() + ",N=" + std::to_string(N);
    if (!vh::selected(name)) return;
    for (unsigned fi = 0; fi < nfields; ++fi) {
        covfie::utility::nd_size<N> ext;
        typename clamp_t::configuration_t cfg;
        for (std::size_t k = 0; k < N; ++k) {
            ext[k] = 1 + rng.below(N <= 2 ? 12 : 5);
            cfg.min[k] = rng.below(3) ? 0 : rng.below(ext[k]);
            cfg.max[k] = rng.below(3) ? ext[k] - 1 : cfg.min[k] + rng.below(ext[k] - cfg.min[k]);
        }
        vh::set_case("%s field#%u extents=%s", name.c_str(), fi, vh::jarr(ext, N).c_str());
        field_t f(covfie::make_parameter_pack(std::monostate{}, typename clamp_t::configuration_t(cfg), typename order_t::configuration_t(ext)));
        typename order_t::non_owning_data_t raw(f.backend().get_backend().get_backend());
        {
            uint64_t c[N] = {};
            for (;;) {
                typename order_t::contravariant_input_t::vector_t cc;
                for (std::size_t k = 0; k < N; ++k) cc[k] = c[k];
                raw.at(cc)[0] = (float)(rng.range(-1000, 1000));
                std::size_t k = 0;
                while (k < N && ++c[k] >= ext[k]) c[k++] = 0;
                if (k == N) break;
            }
        }
        typename field_t::view_t view(f);
        for (unsigned q = 0; q < 1200; ++q) {
            typename field_t::coordinate_t c;
            Q frac[N];
            uint64_t base[N];
            bool outside = false;
            for (std::size_t k = 0; k < N; ++k) {
                R v;
                switch (rng.below(7)) {
                case 0: v = (R)cfg.min[k]; break;
                case 1: v = (R)cfg.max[k]; break;
                case 2: v = (R)(cfg.max[k] + 1); break;
                case 3: {
                    static const double far[] = {4.0e9, 4294967296.0, 4294967298.0, 17179869185.0, 1.0e17, 4611686018427387904.0, 9.0e18};
                    v = (R)(rng.coin() ? rng.unit() * 4.0e9 : far[rng.below(7)] + (double)rng.below(ext[k]));  // far beyond the grid
                    break;
                }
                case 4: v = (R)((double)ext[k] + rng.unit() * 5); break;
                default: v = (R)(rng.unit() * (double)(ext[k] + 1)); break;
                }
                if (!(v >= 0)) v = 0;
                c[k] = v;
                if (LINEAR) {
                    Q fl = floorq((Q)v);
                    base[k] = (uint64_t)fl;
                    frac[k] = (Q)v - fl;
                } else {
                    frac[k] = (Q)v;
                    base[k] = 0;
                }
                outside = outside || (Q)v < (Q)cfg.min[k] || (Q)v > (Q)cfg.max[k];
            }
            float got = view.at(c)[0];
            vh::ev();
            if (outside) vh::nontrivial(vh::fnv(&c, sizeof c, vh::fnv(&ext, sizeof ext, vh::fnv(name))));
            std::string d = "extents=" + vh::jarr(ext, N) + " box=[" + vh::jarr(cfg.min, N) + "," + vh::jarr(cfg.max, N) + "] c=" + vh::jarr(c, N) + " got=" + std::to_string(got);
            auto clampi = [&](uint64_t i, std::size_t k) { return i < cfg.min[k] ? cfg.min[k] : (i > cfg.max[k] ? cfg.max[k] : i); };
            if (LINEAR) {
                iref::Result r = iref::nlinear(N, frac, [&](uint64_t bits) -> Q {
                    typename order_t::contravariant_input_t::vector_t cc;
                    for (std::size_t k = 0; k < N; ++k) cc[k] = clampi(base[k] + ((bits >> k) & 1), k);
                    return (Q)raw.at(cc)[0];
                });
                if (!(fabsq((Q)got - r.exact) <= iref::bound<R, float>(N, r.absum, r.vsum))) vh::viol(name, d + " exact=" + iref::qs(r.exact));
            } else {
                // admissible: a lattice point within 1/2 of x on every axis, then clamped
                bool ok = false;
                for (uint64_t bits = 0; bits < (1ull << N) && !ok; ++bits) {
                    typename order_t::contravariant_input_t::vector_t cc;
                    bool adm = true;
                    for (std::size_t k = 0; k < N; ++k) {
                        Q fl = floorq(frac[k] + (Q)0.5) - (Q)((bits >> k) & 1);
                        adm = adm && fl >= 0 && fabsq(fl - frac[k]) <= (Q)0.5;
                        cc[k] = clampi((uint64_t)(fl < 0 ? 0 : fl), k);
                    }
                    ok = adm && raw.at(cc)[0] == got;
                }
                if (!ok) vh::viol(name, d + " is not the value at the clamp of a nearest lattice point");
            }
            if (fi == 1 && q == 3) vh::sample(name, d, 1);
        }
    }
}

int main(int argc, char ** argv)
{
    vh::init(argc, argv);
    vh::Rng rng(vh::st().seed * 67867967 + 10);
    bool th = vh::st().thorough;
    unsigned nb = th ? 300 : 24, nf = th ? 200 : 16;
#if defined(SH_IDENT_INT)
    al::alias_table_check();
    over_identity<int, 1>(rng, nb);
    over_identity<int, 2>(rng, nb);
    over_identity<int, 3>(rng, nb);
    over_identity<int, 4>(rng, nb);
    over_identity<unsigned, 1>(rng, nb);
    over_identity<unsigned, 2>(rng, nb);
    over_identity<unsigned, 3>(rng, nb);
    over_identity<unsigned, 4>(rng, nb);
    over_identity<std::size_t, 1>(rng, nb);
    over_identity<std::size_t, 2>(rng, nb);
    over_identity<std::size_t, 3>(rng, nb);
    over_identity<std::size_t, 4>(rng, nb);
    over_identity<long, 1>(rng, nb);
    over_identity<long, 2>(rng, nb);
    over_identity<long, 3>(rng, nb);
    over_identity<long, 4>(rng, nb);
#endif
#if defined(SH_IDENT_REAL)
    over_identity<float, 1>(rng, nb);
    over_identity<float, 2>(rng, nb);
    over_identity<float, 3>(rng, nb);
    over_identity<float, 4>(rng, nb);
    over_identity<double, 1>(rng, nb);
    over_identity<double, 2>(rng, nb);
    over_identity<double, 3>(rng, nb);
    over_identity<double, 4>(rng, nb);
#endif
#if defined(SH_STORAGE)
    over_storage<1, false, false>(rng, nf);
    over_storage<2, false, false>(rng, nf);
    over_storage<3, false, false>(rng, nf);
    over_storage<4, false, false>(rng, nf);
    over_storage<2, true, false>(rng, nf);
    over_storage<3, true, false>(rng, nf);
    over_storage<1, false, true>(rng, nf);
    over_storage<2, false, true>(rng, nf);
    over_storage<3, false, true>(rng, nf);
    over_storage<4, false, true>(rng, nf);
    over_storage<2, true, true>(rng, nf);
    over_storage<4, true, true>(rng, nf);
#endif
#if defined(SH_INTERP)
    over_interp<float, 1, false>(rng, nf);
    over_interp<float, 2, false>(rng, nf);
    over_interp<float, 3, false>(rng, nf);
    over_interp<double, 2, false>(rng, nf);
    over_interp<float, 1, true>(rng, nf);
    over_interp<float, 2, true>(rng, nf);
    over_interp<float, 3, true>(rng, nf);
    over_interp<double, 2, true>(rng, nf);
    over_interp<double, 4, true>(rng, nf);
    under_interp<float, 1, false>(rng, nf);
    under_interp<float, 2, false>(rng, nf);
    under_interp<double, 3, false>(rng, nf);
    under_interp<float, 1, true>(rng, nf);
    under_interp<float, 2, true>(rng, nf);
    under_interp<double, 3, true>(rng, nf);
    under_interp<float, 4, true>(rng, nf);
#endif
    return vh::finish();
}
