// C16: concurrent lookups are race-free (ThreadSanitizer) and deterministic (per-thread digests
// equal the digests of a sequential execution of the same per-thread operation lists).
#include <atomic>
#include <cfenv>
#include <cstdint>
#include <cstring>
#include <limits>
#include <thread>
#include <variant>
#include <vector>

#include <covfie/core/backend/primitive/array.hpp>
#include <covfie/core/backend/transformer/affine.hpp>
#include <covfie/core/backend/transformer/backup.hpp>
#include <covfie/core/backend/transformer/clamp.hpp>
#include <covfie/core/backend/transformer/hilbert.hpp>
#include <covfie/core/backend/transformer/linear.hpp>
#include <covfie/core/backend/transformer/morton.hpp>
#include <covfie/core/backend/transformer/nearest_neighbour.hpp>
#include <covfie/core/backend/transformer/strided.hpp>
#include <covfie/core/field.hpp>
#include <covfie/core/field_view.hpp>

#include "refs.hpp"
#include "vh.hpp"

namespace cb = covfie::backend;
namespace cv = covfie::vector;

static std::atomic<uint64_t> g_ticket{0};

enum { I_NONE = 0, I_NN = 1, I_LINEAR = 2 };
static const char * iname[] = {"", "nearest_neighbour/", "linear/"};

template <typename ORDER, int INTERP, bool AFFINE, std::size_t N>
struct stack_of {
    using real_d = cv::vector_d<float, N>;
    using i_t = std::conditional_t<INTERP == I_LINEAR, cb::linear<ORDER, real_d>, std::conditional_t<INTERP == I_NN, cb::nearest_neighbour<ORDER, real_d>, ORDER>>;
    using type = std::conditional_t<AFFINE, cb::affine<i_t>, i_t>;
};

struct Op {
    float x[3];
};

template <typename ORDER, int INTERP, bool AFFINE, std::size_t N, std::size_t EXT = 0>
struct Config {
    static_assert(!(AFFINE && INTERP == I_NONE), "affine sits above an interpolator here");
    using B = typename stack_of<ORDER, INTERP, AFFINE, N>::type;
    using F = covfie::field<B>;
    using V = typename F::view_t;
    static constexpr std::size_t E = EXT ? EXT : (N == 3 ? 16 : 64);  // extent per axis
    static constexpr std::size_t READ_MAX = E - 6;     // readers stay below this on axis 0; writers own [E-4, E)

    static F make(std::size_t len)
    {
        covfie::utility::nd_size<N> ext;
        for (std::size_t k = 0; k < N; ++k) ext[k] = E;
        if constexpr (AFFINE) {
            auto id = B::matrix_t::identity();
            typename B::configuration_t m(id);
            for (std::size_t k = 0; k < N; ++k) m(k, N) = 0.25f;  // translate by a quarter cell
            return F(covfie::make_parameter_pack(std::move(m), std::monostate{}, typename ORDER::configuration_t(ext), covfie::utility::nd_size<1>{len}));
        } else if constexpr (INTERP != I_NONE) {
            return F(covfie::make_parameter_pack(std::monostate{}, typename ORDER::configuration_t(ext), covfie::utility::nd_size<1>{len}));
        } else {
            return F(covfie::make_parameter_pack(typename ORDER::configuration_t(ext), covfie::utility::nd_size<1>{len}));
        }
    }
    static const typename ORDER::owning_data_t & order_of(const F & f)
    {
        if constexpr (AFFINE)
            return f.backend().get_backend().get_backend();
        else if constexpr (INTERP != I_NONE)
            return f.backend().get_backend();
        else
            return f.backend();
    }

    static uint64_t lookup(const V & v, const Op & op)
    {
        typename F::coordinate_t c;
        for (std::size_t k = 0; k < N; ++k) {
            if constexpr (INTERP == I_NONE)
                c[k] = (std::size_t)op.x[k];
            else
                c[k] = op.x[k];
        }
        typename F::output_t r = v.at(c);
        uint64_t h = 1469598103934665603ull;
        for (std::size_t j = 0; j < 3; ++j) {
            float val = r[j];
            h = vh::mix(h, val);
        }
        return h;
    }

    static void run(const std::string & order_name, unsigned T, int view_mode, unsigned writers, unsigned rep, uint64_t seed)
    {
        const std::string nm = std::string(AFFINE ? "affine/" : "") + iname[INTERP] + order_name;
        std::size_t len = 1;
        if (order_name == "strided")
            for (std::size_t k = 0; k < N; ++k) len *= E;
        else {
            std::size_t side = 1;
            while (side < E) side *= 2;
            for (std::size_t k = 0; k < N; ++k) len *= side;
        }
        vh::set_case("%s T=%u view_mode=%d writers=%u rep=%u", nm.c_str(), T, view_mode, writers, rep);
        F f = make(len);
        typename ORDER::non_owning_data_t raw(order_of(f));
        // fill (single-threaded, before any thread exists)
        {
            uint64_t c[N] = {};
            for (;;) {
                typename ORDER::contravariant_input_t::vector_t cc;
                uint64_t id = 0;
                for (std::size_t k = 0; k < N; ++k) {
                    cc[k] = c[k];
                    id = id * E + c[k];
                }
                for (std::size_t j = 0; j < 3; ++j) raw.at(cc)[j] = (float)((id * 3 + j) % 1013);
                std::size_t k = 0;
                while (k < N && ++c[k] >= E) c[k++] = 0;
                if (k == N) break;
            }
        }
        // per-thread operation lists
        const unsigned nops = 2000;
        std::vector<std::vector<Op>> ops(T);
        for (unsigned t = 0; t < T; ++t) {
            vh::Rng rng(seed * 1000003 + t * 7919 + rep);
            ops[t].resize(nops);
            for (auto & op : ops[t])
                for (std::size_t k = 0; k < 3; ++k) {
                    // readers keep clear of the writers' slab on axis 0 (a linear lookup reaches x+1)
                    double hi = k == 0 ? (double)READ_MAX : (double)(E - 2);
                    op.x[k] = (float)(rng.unit() * hi);
                    if (INTERP == I_NONE) op.x[k] = (float)(std::size_t)op.x[k];
                }
        }
        // sequential reference digests
        std::vector<uint64_t> want(T, 0);
        {
            V v(f);
            for (unsigned t = 0; t < T; ++t)
                for (auto & op : ops[t]) want[t] = want[t] * 1099511628211ull + lookup(v, op);
        }
        // concurrent execution
        V shared(f);
        std::vector<uint64_t> got(T, 0);
        std::vector<std::vector<uint64_t>> ticks(T + writers);
        std::vector<std::thread> th;
        std::atomic<unsigned> go{0};
        for (unsigned t = 0; t < T; ++t) {
            th.emplace_back([&, t] {
                vh::Rng jitter(seed + 31 * t + rep);
                go.fetch_add(1, std::memory_order_relaxed);
                while (go.load(std::memory_order_relaxed) < T + writers) {
                }
                // every second reader arrives with all floating-point STATUS flags raised (what an unrelated 0/0 or an
                // overflow earlier in that thread leaves behind): lookups must not depend on the thread's history
                if (t & 1) std::feraiseexcept(FE_ALL_EXCEPT);
                bool own = view_mode == 1 || (view_mode == 2 && (t & 1));
                V mine(f);  // a view per thread (made concurrently from the same field: only reads the field)
                const V & v = own ? mine : shared;
                uint64_t d = 0;
                for (unsigned i = 0; i < nops; ++i) {
                    if (i % 64 == 0) {
                        ticks[t].push_back(g_ticket.fetch_add(1, std::memory_order_relaxed));
                        unsigned spin = (unsigned)jitter.below(4);
                        if (spin == 0) std::this_thread::yield();
                        for (volatile unsigned s = 0; s < spin * 50; ++s) {
                        }
                    }
                    d = d * 1099511628211ull + lookup(v, ops[t][i]);
                }
                got[t] = d;
            });
        }
        for (unsigned w = 0; w < writers; ++w) {
            th.emplace_back([&, w] {
                go.fetch_add(1, std::memory_order_relaxed);
                while (go.load(std::memory_order_relaxed) < T + writers) {
                }
                // writer w owns the cells of the slab whose last coordinate is congruent to w
                typename ORDER::non_owning_data_t wv(order_of(f));
                uint64_t c[N];
                unsigned n = 0;
                for (uint64_t a = E - 4; a < E; ++a)
                    for (uint64_t b = 0; b < E; ++b)
                        for (uint64_t d2 = (N == 3 ? 0 : E - 1); d2 < E; ++d2) {
                            c[0] = a;
                            c[1] = b;
                            if (N == 3) c[2] = d2;
                            if (c[N - 1] % writers != w) continue;
                            typename ORDER::contravariant_input_t::vector_t cc;
                            for (std::size_t k = 0; k < N; ++k) cc[k] = c[k];
                            if (n++ % 32 == 0) ticks[T + w].push_back(g_ticket.fetch_add(1, std::memory_order_relaxed));
                            for (std::size_t j = 0; j < 3; ++j) wv.at(cc)[j] = (float)(5000 + w * 10 + j);
                        }
            });
        }
        for (auto & t : th) t.join();
        vh::ev((uint64_t)T * nops);
        vh::stat("threads_started", T + writers);
        for (unsigned t = 0; t < T; ++t)
            if (got[t] != want[t]) vh::viol("digest:" + nm, "thread " + std::to_string(t) + " of " + std::to_string(T) + " obtained values that differ from the sequential execution (view_mode=" + std::to_string(view_mode) + ", writers=" + std::to_string(writers) + ")");
        // writers' cells hold the writers' values (checked sequentially, after join)
        if (writers) {
            uint64_t c[N];
            bool lost = false;
            for (uint64_t a = E - 4; a < E && !lost; ++a)
                for (uint64_t b = 0; b < E && !lost; ++b)
                    for (uint64_t d2 = (N == 3 ? 0 : E - 1); d2 < E && !lost; ++d2) {
                        c[0] = a;
                        c[1] = b;
                        if (N == 3) c[2] = d2;
                        unsigned w = (unsigned)(c[N - 1] % writers);
                        typename ORDER::contravariant_input_t::vector_t cc;
                        for (std::size_t k = 0; k < N; ++k) cc[k] = c[k];
                        for (std::size_t j = 0; j < 3; ++j)
                            if (raw.at(cc)[j] != (float)(5000 + w * 10 + j)) lost = true;
                        if (lost) vh::viol("writer-lost:" + nm, "cell " + vh::jarr(c, N) + " owned by writer " + std::to_string(w) + " does not hold the value it wrote");
                    }
        }
        // overlap evidence from the relaxed ticket counter (creates no happens-before edge)
        unsigned pairs = 0;
        uint64_t sig = 1469598103934665603ull;
        std::vector<std::pair<uint64_t, unsigned>> order;
        for (unsigned a = 0; a < ticks.size(); ++a) {
            for (uint64_t tk : ticks[a]) order.push_back({tk, a});
            for (unsigned b = a + 1; b < ticks.size(); ++b)
                if (!ticks[a].empty() && !ticks[b].empty() && ticks[a].front() < ticks[b].back() && ticks[b].front() < ticks[a].back()) ++pairs;
        }
        std::sort(order.begin(), order.end());
        for (auto & o : order) sig = vh::mix(sig, o.second);
        vh::stat("overlapping_thread_pairs", pairs);
        vh::seen("interleaving_signatures", sig);
        if (pairs >= 1) vh::nontrivial(sig);
        vh::sample(nm, "T=" + std::to_string(T) + " writers=" + std::to_string(writers) + " view_mode=" + std::to_string(view_mode) + " overlapping pairs=" + std::to_string(pairs) + " digests equal sequential", 1);
    }
};

// Two fields of DIFFERENT extents looked up at the same time (half the threads each): state that a
// layer memoises per call site (an extent-dependent cache, a lazily built table) is only written
// concurrently when the fields differ.
template <typename ORDER, int INTERP, std::size_t N>
static void two_fields(const std::string & oname, unsigned T, unsigned rep, uint64_t seed)
{
    using B = typename stack_of<ORDER, INTERP, false, N>::type;
    using F = covfie::field<B>;
    using V = typename F::view_t;
    const std::string nm = std::string("two-fields/") + iname[INTERP] + oname;
    vh::set_case("%s T=%u rep=%u", nm.c_str(), T, rep);
    const std::size_t extA[4] = {16, 16, 16, 6}, extB[4] = {5, 12, 7, 4};
    auto build = [&](const std::size_t * e) {
        covfie::utility::nd_size<N> ext;
        std::size_t mx = 0;
        for (std::size_t k = 0; k < N; ++k) {
            ext[k] = e[k];
            mx = e[k] > mx ? e[k] : mx;
        }
        std::size_t side = 1, len = 1;
        while (side < mx) side *= 2;
        for (std::size_t k = 0; k < N; ++k) len *= side;  // large enough for every order
        F f = [&] {
            if constexpr (INTERP != I_NONE)
                return F(covfie::make_parameter_pack(std::monostate{}, typename ORDER::configuration_t(ext), covfie::utility::nd_size<1>{len}));
            else
                return F(covfie::make_parameter_pack(typename ORDER::configuration_t(ext), covfie::utility::nd_size<1>{len}));
        }();
        const typename ORDER::owning_data_t * od;
        if constexpr (INTERP != I_NONE)
            od = &f.backend().get_backend();
        else
            od = &f.backend();
        typename ORDER::non_owning_data_t raw(*od);
        uint64_t c[N] = {};
        for (;;) {
            typename ORDER::contravariant_input_t::vector_t cc;
            uint64_t id = 0;
            for (std::size_t k = 0; k < N; ++k) {
                cc[k] = c[k];
                id = id * 32 + c[k];
            }
            for (std::size_t j = 0; j < 3; ++j) raw.at(cc)[j] = (float)((id * 3 + j) % 2039);
            std::size_t k = 0;
            while (k < N && ++c[k] >= e[k]) c[k++] = 0;
            if (k == N) break;
        }
        return f;
    };
    F fa = build(extA), fb = build(extB);
    const unsigned nops = 1500;
    auto lookup = [](const V & v, const float * x) {
        typename F::coordinate_t c;
        for (std::size_t k = 0; k < N; ++k) {
            if constexpr (INTERP == I_NONE)
                c[k] = (std::size_t)x[k];
            else
                c[k] = x[k];
        }
        typename F::output_t r = v.at(c);
        uint64_t h = 1469598103934665603ull;
        for (std::size_t j = 0; j < 3; ++j) {
            float val = r[j];
            h = vh::mix(h, val);
        }
        return h;
    };
    std::vector<std::vector<float>> ops(T);
    for (unsigned t = 0; t < T; ++t) {
        vh::Rng rng(seed * 7368787 + t * 131 + rep);
        const std::size_t * e = (t & 1) ? extB : extA;
        ops[t].resize(nops * 4);
        for (unsigned i = 0; i < nops; ++i)
            for (std::size_t k = 0; k < 4; ++k) {
                float x = (float)(rng.unit() * (double)(e[k < N ? k : 0] - 1.001));
                ops[t][i * 4 + k] = INTERP == I_NONE ? (float)(std::size_t)x : x;
            }
    }
    std::vector<uint64_t> want(T, 0), got(T, 0);
    {
        V va(fa), vb(fb);
        for (unsigned t = 0; t < T; ++t)
            for (unsigned i = 0; i < nops; ++i) want[t] = want[t] * 1099511628211ull + lookup((t & 1) ? vb : va, &ops[t][i * 4]);
    }
    std::vector<std::thread> th;
    std::atomic<unsigned> go{0};
    std::vector<std::vector<uint64_t>> ticks(T);
    for (unsigned t = 0; t < T; ++t)
        th.emplace_back([&, t] {
            go.fetch_add(1, std::memory_order_relaxed);
            while (go.load(std::memory_order_relaxed) < T) {
            }
            V v((t & 1) ? fb : fa);
            uint64_t d = 0;
            for (unsigned i = 0; i < nops; ++i) {
                if (i % 64 == 0) ticks[t].push_back(g_ticket.fetch_add(1, std::memory_order_relaxed));
                d = d * 1099511628211ull + lookup(v, &ops[t][i * 4]);
            }
            got[t] = d;
        });
    for (auto & t : th) t.join();
    vh::ev((uint64_t)T * nops);
    vh::stat("threads_started", T);
    for (unsigned t = 0; t < T; ++t)
        if (got[t] != want[t]) vh::viol("digest:" + nm, "thread " + std::to_string(t) + " of " + std::to_string(T) + " (field " + ((t & 1) ? "5x12x7" : "16^3") + ") obtained values that differ from the sequential execution");
    unsigned pairs = 0;
    uint64_t sig = 1469598103934665603ull;
    std::vector<std::pair<uint64_t, unsigned>> order;
    for (unsigned a = 0; a < T; ++a) {
        for (uint64_t tk : ticks[a]) order.push_back({tk, a});
        for (unsigned b = a + 1; b < T; ++b)
            if (!ticks[a].empty() && !ticks[b].empty() && ticks[a].front() < ticks[b].back() && ticks[b].front() < ticks[a].back()) ++pairs;
    }
    std::sort(order.begin(), order.end());
    for (auto & o : order) sig = vh::mix(sig, o.second);
    vh::stat("overlapping_thread_pairs", pairs);
    vh::seen("interleaving_signatures", sig);
    if (pairs >= 1) vh::nontrivial(sig);
    vh::sample(nm, "T=" + std::to_string(T) + " two fields (16^N and 5x12x7) overlapping pairs=" + std::to_string(pairs) + " digests equal sequential", 1);
}

// ------------------------------------------------------------------ cold start
// The very FIRST lookups a process makes through a given instantiation happen in T threads at once (a field
// loaded or allocated on the main thread and handed to a pool): one-time initialisation hidden in the lookup
// path (a lazily probed CPU feature, a lazily built table) is only racy at that moment.  The field is filled
// straight through the array backend and the expected values come from the reference index formulas, so that
// nothing warms the instantiation up before the threads run.  Each call must use an instantiation (coordinate
// type) no other part of this program uses.
enum { K_STRIDED, K_MORTON, K_HILBERT };
template <typename ORDER, int INTERP, std::size_t N, int KIND>
static void cold_start(const std::string & nm0, unsigned T, uint64_t seed)
{
    using B = typename stack_of<ORDER, INTERP, false, N>::type;
    using F = covfie::field<B>;
    using V = typename F::view_t;
    using arr_t = typename ORDER::backend_t;
    const std::string nm = "cold-start/" + std::string(iname[INTERP]) + nm0;
    vh::set_case("%s T=%u", nm.c_str(), T);
    const std::size_t E = N == 3 ? 8 : 16;
    covfie::utility::nd_size<N> ext;
    std::size_t len = 1;
    for (std::size_t k = 0; k < N; ++k) {
        ext[k] = E;
        len *= E;
    }
    F f = [&] {
        if constexpr (INTERP != I_NONE)
            return F(covfie::make_parameter_pack(std::monostate{}, typename ORDER::configuration_t(ext), covfie::utility::nd_size<1>{len}));
        else
            return F(covfie::make_parameter_pack(typename ORDER::configuration_t(ext), covfie::utility::nd_size<1>{len}));
    }();
    const typename arr_t::owning_data_t * arr;
    if constexpr (INTERP != I_NONE)
        arr = &f.backend().get_backend().get_backend();
    else
        arr = &f.backend().get_backend();
    {
        typename arr_t::non_owning_data_t av(*arr);
        for (std::size_t i = 0; i < len; ++i)
            for (std::size_t j = 0; j < 3; ++j) av.at(i)[j] = (float)((i * 3 + j) % 4093);
    }
    auto ref_index = [&](const uint64_t * c) -> uint64_t {
        uint64_t e[N];
        for (std::size_t k = 0; k < N; ++k) e[k] = E;
        if (KIND == K_STRIDED) return (uint64_t)ref::rowmajor(c, e, N);
        if (KIND == K_MORTON) return (uint64_t)ref::morton(c, N);
        // Hilbert: invert the published d -> (x, y) walk
        for (uint64_t d = 0; d < E * E; ++d) {
            uint64_t x, y;
            ref::hilbert_d2xy(E, d, x, y);
            if (x == c[0] && y == c[1]) return d;
        }
        return 0;
    };
    V shared(f);
    std::vector<uint64_t> bad(T, 0);
    std::vector<std::thread> th;
    std::atomic<unsigned> go{0};
    for (unsigned t = 0; t < T; ++t)
        th.emplace_back([&, t] {
            vh::Rng rng(seed * 977 + t);
            go.fetch_add(1, std::memory_order_relaxed);
            while (go.load(std::memory_order_relaxed) < T) {
            }
            for (unsigned i = 0; i < 400; ++i) {
                uint64_t c[N];
                typename F::coordinate_t cc;
                for (std::size_t k = 0; k < N; ++k) {
                    c[k] = rng.below(E - 1);
                    cc[k] = (typename B::contravariant_input_t::scalar_t)c[k];  // lattice points: exact under either interpolator
                }
                typename F::output_t r = shared.at(cc);
                uint64_t idx = ref_index(c);
                for (std::size_t j = 0; j < 3; ++j)
                    if (r[j] != (float)((idx * 3 + j) % 4093)) ++bad[t];
            }
        });
    for (auto & t : th) t.join();
    vh::ev((uint64_t)T * 400);
    vh::stat("threads_started", T);
    vh::stat("cold_start_scenarios");
    for (unsigned t = 0; t < T; ++t)
        if (bad[t]) vh::viol("digest:" + nm, "thread " + std::to_string(t) + ": " + std::to_string(bad[t]) + " values differ from the reference during the first concurrent lookups");
    vh::sample(nm, "T=" + std::to_string(T) + " threads made the process's first lookups through this instantiation concurrently", 1);
}

// ------------------------------------------------------------------ early pool
// Worker threads that exist BEFORE the field and its view are made (a long-lived pool): the view is published
// to them with a release store.  Per-thread state that building a view leaves behind in the constructing thread
// (floating-point control flags, thread-locals) then differs between the workers and the thread that computed
// the sequential reference.  Stored values include float subnormals.
template <typename ORDER, int INTERP, std::size_t N>
static void early_pool(const std::string & oname, unsigned T, uint64_t seed)
{
    using B = typename stack_of<ORDER, INTERP, false, N>::type;
    using F = covfie::field<B>;
    using V = typename F::view_t;
    const std::string nm = std::string("early-pool/") + iname[INTERP] + oname;
    vh::set_case("%s T=%u", nm.c_str(), T);
    const std::size_t E = N == 3 ? 8 : 16;
    const unsigned nops = 600;
    std::atomic<const V *> published{nullptr};
    std::vector<std::vector<float>> ops(T);
    for (unsigned t = 0; t < T; ++t) {
        vh::Rng rng(seed * 31337 + t);
        ops[t].resize(nops * N);
        for (auto & x : ops[t]) x = INTERP == I_NONE ? (float)rng.below(E - 1) : (float)(rng.unit() * (double)(E - 2));
    }
    std::vector<std::vector<uint32_t>> got(T);
    auto run_ops = [&](const V & v, unsigned t, std::vector<uint32_t> & out) {
        for (unsigned i = 0; i < nops; ++i) {
            typename F::coordinate_t c;
            for (std::size_t k = 0; k < N; ++k) {
                if constexpr (INTERP == I_NONE)
                    c[k] = (std::size_t)ops[t][i * N + k];
                else
                    c[k] = ops[t][i * N + k];
            }
            typename F::output_t r = v.at(c);
            for (std::size_t j = 0; j < 3; ++j) {
                float val = r[j];
                uint32_t bits;
                std::memcpy(&bits, &val, 4);
                out.push_back(bits);
            }
        }
    };
    std::vector<std::thread> th;
    for (unsigned t = 0; t < T; ++t)
        th.emplace_back([&, t] {
            const V * v;
            while (!(v = published.load(std::memory_order_acquire))) std::this_thread::yield();
            if (t & 1) std::feraiseexcept(FE_ALL_EXCEPT);
            run_ops(*v, t, got[t]);
        });
    // only now: field, fill (ordinary values in components 0-1, float subnormals in component 2), view, sequential reference
    covfie::utility::nd_size<N> ext;
    std::size_t len = 1;
    for (std::size_t k = 0; k < N; ++k) {
        ext[k] = E;
        len *= E;
    }
    F f = [&] {
        if constexpr (INTERP != I_NONE)
            return F(covfie::make_parameter_pack(std::monostate{}, typename ORDER::configuration_t(ext), covfie::utility::nd_size<1>{len}));
        else
            return F(covfie::make_parameter_pack(typename ORDER::configuration_t(ext), covfie::utility::nd_size<1>{len}));
    }();
    {
        const typename ORDER::owning_data_t * od;
        if constexpr (INTERP != I_NONE)
            od = &f.backend().get_backend();
        else
            od = &f.backend();
        typename ORDER::non_owning_data_t raw(*od);
        uint64_t c[N] = {};
        for (uint64_t id = 0;; ++id) {
            typename ORDER::contravariant_input_t::vector_t cc;
            for (std::size_t k = 0; k < N; ++k) cc[k] = c[k];
            for (std::size_t j = 0; j < 3; ++j)
                raw.at(cc)[j] = (j == 2) ? std::numeric_limits<float>::denorm_min() * (float)(1 + (id * 7 + j) % 5000) : (float)((id * 3 + j) % 977);  // component 2 lives in the subnormal range everywhere
            std::size_t k = 0;
            while (k < N && ++c[k] >= E) c[k++] = 0;
            if (k == N) break;
        }
    }
    V view(f);
    std::vector<std::vector<uint32_t>> want(T);
    for (unsigned t = 0; t < T; ++t) run_ops(view, t, want[t]);
    published.store(&view, std::memory_order_release);
    for (auto & t : th) t.join();
    vh::ev((uint64_t)T * nops);
    vh::stat("threads_started", T);
    vh::stat("early_pool_scenarios");
    for (unsigned t = 0; t < T; ++t)
        if (got[t] != want[t]) {
            size_t i = 0;
            while (i < got[t].size() && got[t][i] == want[t][i]) ++i;
            char buf[160];
            std::snprintf(buf, sizeof buf, "pool thread %u (started before the view was built): value #%zu has bits 0x%08x, the sequential execution obtained 0x%08x", t, i, got[t][i], want[t][i]);
            vh::viol("digest:" + nm, buf);
            break;
        }
    vh::sample(nm, "T=" + std::to_string(T) + " workers started before the field existed; values incl. float subnormals equal the sequential run bit for bit", 1);
}

// ------------------------------------------------------------------ view copies
// Views are value types: every thread works on its OWN COPY of a view whose original has been overwritten and
// freed before the threads start (the way a view is passed by value into a kernel or a worker).  A copy that still
// refers to the object it was copied from reads freed (zeroed) memory.
template <typename ORDER, int INTERP, std::size_t N>
static void view_copies(const std::string & oname, unsigned T, uint64_t seed)
{
    using B = typename stack_of<ORDER, INTERP, false, N>::type;
    using F = covfie::field<B>;
    using V = typename F::view_t;
    static_assert(std::is_trivially_copyable_v<V>, "views are trivially copyable (covfie/core/concepts.hpp)");
    const std::string nm = std::string("view-copies/") + iname[INTERP] + oname;
    vh::set_case("%s T=%u", nm.c_str(), T);
    const std::size_t extv[4] = {12, 7, 5, 3};
    covfie::utility::nd_size<N> ext;
    std::size_t mx = 0, side = 1, len = 1;
    for (std::size_t k = 0; k < N; ++k) {
        ext[k] = extv[k];
        mx = extv[k] > mx ? extv[k] : mx;
    }
    while (side < mx) side *= 2;
    for (std::size_t k = 0; k < N; ++k) len *= side;
    F f = [&] {
        if constexpr (INTERP != I_NONE)
            return F(covfie::make_parameter_pack(std::monostate{}, typename ORDER::configuration_t(ext), covfie::utility::nd_size<1>{len}));
        else
            return F(covfie::make_parameter_pack(typename ORDER::configuration_t(ext), covfie::utility::nd_size<1>{len}));
    }();
    {
        const typename ORDER::owning_data_t * od;
        if constexpr (INTERP != I_NONE)
            od = &f.backend().get_backend();
        else
            od = &f.backend();
        typename ORDER::non_owning_data_t raw(*od);
        uint64_t c[N] = {};
        for (uint64_t id = 0;; ++id) {
            typename ORDER::contravariant_input_t::vector_t cc;
            for (std::size_t k = 0; k < N; ++k) cc[k] = c[k];
            for (std::size_t j = 0; j < 3; ++j) raw.at(cc)[j] = (float)((id * 3 + j) % 2039);
            std::size_t k = 0;
            while (k < N && ++c[k] >= ext[k]) c[k++] = 0;
            if (k == N) break;
        }
    }
    const unsigned nops = 500;
    std::vector<std::vector<float>> ops(T);
    for (unsigned t = 0; t < T; ++t) {
        vh::Rng rng(seed * 7927 + t);
        ops[t].resize(nops * N);
        for (unsigned i = 0; i < nops; ++i)
            for (std::size_t k = 0; k < N; ++k) ops[t][i * N + k] = INTERP == I_NONE ? (float)rng.below(ext[k]) : (float)(rng.unit() * (double)(ext[k] - 1) * 0.999);
    }
    auto run_ops = [&](const V & v, unsigned t) {
        uint64_t d = 0;
        for (unsigned i = 0; i < nops; ++i) {
            typename F::coordinate_t c;
            for (std::size_t k = 0; k < N; ++k) {
                if constexpr (INTERP == I_NONE)
                    c[k] = (std::size_t)ops[t][i * N + k];
                else
                    c[k] = ops[t][i * N + k];
            }
            typename F::output_t r = v.at(c);
            for (std::size_t j = 0; j < 3; ++j) {
                float val = r[j];
                d = vh::mix(d, val);
            }
        }
        return d;
    };
    // copies first, then the original is zeroed and freed
    V * orig = new V(f);
    std::vector<V> copies(T, *orig);
    std::vector<V> assigned;
    for (unsigned t = 0; t < T; ++t) {
        V other(f);
        other = *orig;  // copy assignment as well
        assigned.push_back(other);
    }
    std::memset(static_cast<void *>(orig), 0, sizeof(V));
    delete orig;
    std::vector<uint64_t> got(T, 0), want(T, 0);
    std::vector<std::thread> th;
    std::atomic<unsigned> go{0};
    for (unsigned t = 0; t < T; ++t)
        th.emplace_back([&, t, mine = (t & 1) ? assigned[t] : copies[t]] {
            go.fetch_add(1, std::memory_order_relaxed);
            while (go.load(std::memory_order_relaxed) < T) {
            }
            got[t] = run_ops(mine, t);
        });
    for (auto & t : th) t.join();
    {
        V fresh(f);
        for (unsigned t = 0; t < T; ++t) want[t] = run_ops(fresh, t);
    }
    vh::ev((uint64_t)T * nops);
    vh::stat("threads_started", T);
    vh::stat("view_copy_scenarios");
    for (unsigned t = 0; t < T; ++t)
        if (got[t] != want[t]) {
            vh::viol("digest:" + nm, "thread " + std::to_string(t) + " working on its own copy of a view (original view destroyed) obtained values that differ from a fresh view's");
            break;
        }
    vh::sample(nm, "T=" + std::to_string(T) + " threads each used a by-value copy of a view after the original was zeroed and freed; digests equal a fresh view's", 1);
}

// ------------------------------------------------------------------ guarded stacks, special values
// backup<ORDER> and clamp<ORDER> over storage that holds NaN, infinities and negative zero in some cells: every
// thread reads the same cells (the special ones included) through one shared view.  The concurrent phase runs FIRST
// (a lookup that repaired or cached anything on first sight would do so concurrently); afterwards the storage must
// be bit-for-bit what it was: lookups never modify a field.
template <typename ORDER, std::size_t N>
static void guarded(const std::string & oname, unsigned T, uint64_t seed)
{
    using BK = cb::backup<ORDER>;
    using CL = cb::clamp<ORDER>;
    using FB = covfie::field<BK>;
    using FC = covfie::field<CL>;
    const std::string nm = "guarded/" + oname;
    vh::set_case("%s T=%u", nm.c_str(), T);
    const std::size_t extv[4] = {9, 6, 5, 3};
    covfie::utility::nd_size<N> ext;
    std::size_t mx = 0, side = 1, len = 1;
    for (std::size_t k = 0; k < N; ++k) {
        ext[k] = extv[k];
        mx = extv[k] > mx ? extv[k] : mx;
    }
    while (side < mx) side *= 2;
    for (std::size_t k = 0; k < N; ++k) len *= side;
    typename BK::configuration_t bc;
    typename CL::configuration_t cc_;
    for (std::size_t k = 0; k < N; ++k) {
        bc.min[k] = cc_.min[k] = 1;
        bc.max[k] = cc_.max[k] = ext[k] - 2;
    }
    for (std::size_t j = 0; j < 3; ++j) bc.default_value[j] = -7.f - (float)j;
    FB fb(covfie::make_parameter_pack(std::move(bc), typename ORDER::configuration_t(ext), covfie::utility::nd_size<1>{len}));
    FC fc(covfie::make_parameter_pack(std::move(cc_), typename ORDER::configuration_t(ext), covfie::utility::nd_size<1>{len}));
    auto fill = [&](const typename ORDER::owning_data_t & od) {
        typename ORDER::non_owning_data_t raw(od);
        vh::Rng rng(seed * 131 + 5);
        uint64_t c[N] = {};
        for (uint64_t id = 0;; ++id) {
            typename ORDER::contravariant_input_t::vector_t cc;
            for (std::size_t k = 0; k < N; ++k) cc[k] = c[k];
            for (std::size_t j = 0; j < 3; ++j) {
                float v = (float)((id * 3 + j) % 509);
                switch (rng.below(6)) {
                case 0: v = std::numeric_limits<float>::quiet_NaN(); break;
                case 1: v = (j & 1) ? -std::numeric_limits<float>::infinity() : std::numeric_limits<float>::infinity(); break;
                case 2: v = -0.f; break;
                default: break;
                }
                raw.at(cc)[j] = v;
            }
            std::size_t k = 0;
            while (k < N && ++c[k] >= ext[k]) c[k++] = 0;
            if (k == N) break;
        }
    };
    fill(fb.backend().get_backend());
    fill(fc.backend().get_backend());
    auto snapshot = [&](const typename ORDER::owning_data_t & od) {
        typename ORDER::backend_t::non_owning_data_t av(od.get_backend());
        std::vector<uint32_t> bits(len * 3);
        for (std::size_t i = 0; i < len; ++i)
            for (std::size_t j = 0; j < 3; ++j) {
                float v = av.at(i)[j];
                std::memcpy(&bits[i * 3 + j], &v, 4);
            }
        return bits;
    };
    const std::vector<uint32_t> before_b = snapshot(fb.backend().get_backend()), before_c = snapshot(fc.backend().get_backend());
    typename FB::view_t vb(fb);
    typename FC::view_t vc(fc);
    // every thread sweeps the whole lattice (a rotation of it), a margin outside the box included
    auto sweep = [&](unsigned t) {
        uint64_t d = 0, c[N] = {};
        for (;;) {
            typename FB::coordinate_t x;
            for (std::size_t k = 0; k < N; ++k) x[k] = (c[k] + t) % ext[k];
            typename FB::output_t r1 = vb.at(x);
            typename FC::output_t r2 = vc.at(x);
            for (std::size_t j = 0; j < 3; ++j) {
                float a = r1[j], b = r2[j];
                d = vh::mix(vh::mix(d, a), b);
            }
            std::size_t k = 0;
            while (k < N && ++c[k] >= ext[k]) c[k++] = 0;
            if (k == N) break;
        }
        return d;
    };
    std::vector<uint64_t> got(T, 0);
    std::vector<std::thread> th;
    std::atomic<unsigned> go{0};
    for (unsigned t = 0; t < T; ++t)
        th.emplace_back([&, t] {
            go.fetch_add(1, std::memory_order_relaxed);
            while (go.load(std::memory_order_relaxed) < T) {
            }
            uint64_t d = 0;
            for (unsigned rep = 0; rep < 6; ++rep) d = d * 1099511628211ull + sweep(t);
            got[t] = d;
        });
    for (auto & t : th) t.join();
    uint64_t cells = 1;
    for (std::size_t k = 0; k < N; ++k) cells *= ext[k];
    vh::ev((uint64_t)T * 6 * cells * 2);
    vh::stat("threads_started", T);
    vh::stat("guarded_scenarios");
    if (snapshot(fb.backend().get_backend()) != before_b) vh::viol("lookup-modified-storage:" + nm, "storage under backup<> differs bit-wise after concurrent lookups (cells holding NaN / inf / -0 included)");
    if (snapshot(fc.backend().get_backend()) != before_c) vh::viol("lookup-modified-storage:" + nm, "storage under clamp<> differs bit-wise after concurrent lookups");
    // sequential reference afterwards, against the model: in the box the stored cell, outside the default / the clamped cell
    {
        typename ORDER::non_owning_data_t rb(fb.backend().get_backend()), rc(fc.backend().get_backend());
        for (unsigned t = 0; t < T; ++t) {
            uint64_t d = 0;
            for (unsigned rep = 0; rep < 6; ++rep) {
                uint64_t h = 0, c[N] = {};
                for (;;) {
                    typename ORDER::contravariant_input_t::vector_t x, y;
                    bool inside = true;
                    for (std::size_t k = 0; k < N; ++k) {
                        x[k] = (c[k] + t) % ext[k];
                        y[k] = x[k] < 1 ? 1 : (x[k] > ext[k] - 2 ? ext[k] - 2 : x[k]);
                        inside = inside && x[k] >= 1 && x[k] <= ext[k] - 2;
                    }
                    for (std::size_t j = 0; j < 3; ++j) {
                        float a = inside ? (float)rb.at(x)[j] : -7.f - (float)j, b = rc.at(y)[j];
                        h = vh::mix(vh::mix(h, a), b);
                    }
                    std::size_t k = 0;
                    while (k < N && ++c[k] >= ext[k]) c[k++] = 0;
                    if (k == N) break;
                }
                d = d * 1099511628211ull + h;
            }
            if (d != got[t]) {
                vh::viol("digest:" + nm, "thread " + std::to_string(t) + " obtained values through backup<>/clamp<> that differ from the sequential model (stored NaN/inf/-0 cells returned as stored inside the box)");
                break;
            }
        }
    }
    vh::nontrivial(vh::fnv(nm) + T);
    vh::sample(nm, "T=" + std::to_string(T) + " threads swept backup<> and clamp<> over storage with NaN/inf/-0 cells; storage bit-identical afterwards", 1);
}

template <typename ORDER, std::size_t N>
static void all_stacks(const std::string & oname, uint64_t seed, unsigned R)
{
    for (unsigned T : {3u, 8u}) {
        view_copies<ORDER, I_NONE, N>(oname, T, seed);
        view_copies<ORDER, I_LINEAR, N>(oname, T, seed);
        view_copies<ORDER, I_NN, N>(oname, T, seed);
        guarded<ORDER, N>(oname, T * 2, seed);
    }

    for (unsigned rep = 0; rep < R; ++rep)
        for (unsigned T : {2u, 6u, 16u}) {
            two_fields<ORDER, I_NONE, N>(oname, T, rep, seed);
            two_fields<ORDER, I_LINEAR, N>(oname, T, rep, seed);
            two_fields<ORDER, I_NN, N>(oname, T, rep, seed);
        }
    const unsigned Ts[] = {2, 4, 8, 16};
    for (unsigned rep = 0; rep < R; ++rep) {
        for (unsigned T : Ts) {
            int vm = (int)((rep + T) % 3);
            unsigned wr = (T >= 4) ? 2 : 1;
            Config<ORDER, I_NONE, false, N>::run(oname, T, vm, wr, rep, seed);
            Config<ORDER, I_NN, false, N>::run(oname, T, (vm + 1) % 3, wr, rep, seed);
            Config<ORDER, I_LINEAR, false, N>::run(oname, T, (vm + 2) % 3, wr, rep, seed);
            Config<ORDER, I_LINEAR, true, N>::run(oname, T, vm, 0, rep, seed);
            Config<ORDER, I_NN, true, N>::run(oname, T, (vm + 1) % 3, wr, rep, seed);
        }
    }
}

int main(int argc, char ** argv)
{
    vh::init(argc, argv);
    uint64_t seed = vh::st().seed;
    unsigned R = vh::st().thorough ? 20 : 3;
    using arr3 = cb::array<cv::float3>;
    // early pools come first of all: their workers must predate every view this process ever builds (a thread inherits
    // the floating-point control state of its creator, so state left behind by an earlier view would be inherited too)
#if defined(SH_STRIDED)
    early_pool<cb::strided<cv::size3, arr3>, I_LINEAR, 3>("strided", 6, seed);
    early_pool<cb::strided<cv::size3, arr3>, I_NN, 3>("strided", 4, seed);
    early_pool<cb::strided<cv::size3, arr3>, I_NONE, 3>("strided", 4, seed);
#endif
#if defined(SH_MORTON)
    early_pool<cb::morton<cv::size3, arr3, true>, I_LINEAR, 3>("morton<use_bmi2=true>", 6, seed);
    early_pool<cb::morton<cv::size3, arr3, false>, I_NN, 3>("morton<use_bmi2=false>", 4, seed);
    early_pool<cb::morton<cv::size3, arr3, true>, I_NONE, 3>("morton<use_bmi2=true>", 4, seed);
#endif
#if defined(SH_HILBERT)
    early_pool<cb::hilbert<cv::size2, arr3>, I_LINEAR, 2>("hilbert", 6, seed);
    early_pool<cb::hilbert<cv::size2, arr3>, I_NN, 2>("hilbert", 4, seed);
    early_pool<cb::hilbert<cv::size2, arr3>, I_NONE, 2>("hilbert", 4, seed);
#endif
    // cold starts next, each on an instantiation of its own (coordinate types nothing else here uses)
#if defined(SH_STRIDED)
    cold_start<cb::strided<cv::vector_d<unsigned, 3>, arr3>, I_NONE, 3, K_STRIDED>("strided<unsigned>", 8, seed);
    cold_start<cb::strided<cv::vector_d<int, 3>, arr3>, I_LINEAR, 3, K_STRIDED>("strided<int>", 8, seed);
    cold_start<cb::strided<cv::vector_d<long, 3>, arr3>, I_NN, 3, K_STRIDED>("strided<long>", 8, seed);
#endif
#if defined(SH_MORTON)
    cold_start<cb::morton<cv::vector_d<unsigned, 3>, arr3, true>, I_NONE, 3, K_MORTON>("morton<unsigned,true>", 8, seed);
    cold_start<cb::morton<cv::vector_d<int, 3>, arr3, true>, I_LINEAR, 3, K_MORTON>("morton<int,true>", 8, seed);
    cold_start<cb::morton<cv::vector_d<long, 3>, arr3, true>, I_NN, 3, K_MORTON>("morton<long,true>", 8, seed);
    cold_start<cb::morton<cv::vector_d<unsigned, 3>, arr3, false>, I_NONE, 3, K_MORTON>("morton<unsigned,false>", 8, seed);
    cold_start<cb::morton<cv::vector_d<int, 3>, arr3, false>, I_LINEAR, 3, K_MORTON>("morton<int,false>", 8, seed);
#endif
#if defined(SH_HILBERT)
    cold_start<cb::hilbert<cv::vector_d<unsigned, 2>, arr3>, I_NONE, 2, K_HILBERT>("hilbert<unsigned>", 8, seed);
    cold_start<cb::hilbert<cv::vector_d<int, 2>, arr3>, I_LINEAR, 2, K_HILBERT>("hilbert<int>", 8, seed);
    cold_start<cb::hilbert<cv::vector_d<long, 2>, arr3>, I_NN, 2, K_HILBERT>("hilbert<long>", 8, seed);
#endif
#if defined(SH_STRIDED)
    // four input dimensions: the interpolator's generic 2^N branch (1-3 take the dimension-specialised ones)
    for (unsigned rep = 0; rep < R; ++rep)
        for (unsigned T : {2u, 8u}) {
            two_fields<cb::strided<cv::size4, arr3>, I_LINEAR, 4>("strided<size4>", T, rep, seed);
            two_fields<cb::strided<cv::size4, arr3>, I_NN, 4>("strided<size4>", T, rep, seed);
        }
    all_stacks<cb::strided<cv::size3, arr3>, 3>("strided", seed, R);
#endif
#if defined(SH_MORTON)
    // 16-bit coordinates on axes long enough to need more than 16/N of their bits (64^3, 512x512 would be too large for 2-D
    // at 12 bytes a cell: 3-D only): writers own a slab no reader's cell may alias
    for (unsigned rep = 0; rep < (R > 4 ? 4 : R); ++rep) {
        Config<cb::morton<cv::vector_d<unsigned short, 3>, arr3, true>, I_NONE, false, 3, 64>::run("morton<uint16,use_bmi2=true>", 6, (int)(rep % 3), 2, rep, seed);
        Config<cb::morton<cv::vector_d<unsigned short, 3>, arr3, false>, I_NONE, false, 3, 64>::run("morton<uint16,use_bmi2=false>", 6, (int)((rep + 1) % 3), 2, rep, seed);
        Config<cb::morton<cv::vector_d<unsigned short, 3>, arr3, false>, I_NN, false, 3, 64>::run("morton<uint16,use_bmi2=false>", 4, (int)((rep + 2) % 3), 2, rep, seed);
    }
    for (unsigned rep = 0; rep < R; ++rep) two_fields<cb::morton<cv::size4, arr3, true>, I_LINEAR, 4>("morton<size4,true>", 8, rep, seed);
    all_stacks<cb::morton<cv::size3, arr3, true>, 3>("morton<use_bmi2=true>", seed, R);
    all_stacks<cb::morton<cv::size3, arr3, false>, 3>("morton<use_bmi2=false>", seed, R);
#endif
#if defined(SH_HILBERT)
    all_stacks<cb::hilbert<cv::size2, arr3>, 2>("hilbert", seed, R);
#endif
    return vh::finish();
}
