// interp_ref.hpp -- exact N-linear interpolation in binary128 with an a-priori forward
// error bound.  Independent of covfie (own corner/weight convention).
#pragma once
#include <cstdint>
#include <limits>
#include <string>

#include <quadmath.h>

namespace iref {
typedef __float128 Q;

inline std::string qs(Q v)
{
    char b[64];
    quadmath_snprintf(b, sizeof b, "%.22Qg", v);
    return b;
}

struct Result {
    Q exact;   // sum_n w_n v_n
    Q absum;   // sum_n |w_n| |v_n|
    Q vsum;    // sum_n |v_n|
    Q vmin, vmax;
};

// frac[k] in [0,1): fractional part on axis k; corner(bits) -> stored value as Q (bit k set =>
// +1 on axis k)
template <typename F>
inline Result nlinear(std::size_t n, const Q * frac, F corner)
{
    Result r{0, 0, 0, 0, 0};
    bool first = true;
    for (uint64_t bits = 0; bits < (1ull << n); ++bits) {
        Q w = 1;
        for (std::size_t k = 0; k < n; ++k) w *= ((bits >> k) & 1) ? frac[k] : (1 - frac[k]);
        Q v = corner(bits);
        r.exact += w * v;
        r.absum += fabsq(w) * fabsq(v);
        r.vsum += fabsq(v);
        if (first || v < r.vmin) r.vmin = v;
        if (first || v > r.vmax) r.vmax = v;
        first = false;
    }
    return r;
}

// bound for a computation in coordinate type R with result type S (see DESIGN.md, C03)
template <typename R, typename S>
inline Q bound(std::size_t n, Q absum, Q vsum)
{
    Q uR = (Q)std::numeric_limits<R>::epsilon() / 2, uS = (Q)std::numeric_limits<S>::epsilon() / 2;
    Q u = uR > uS ? uR : uS;
    Q dm = sizeof(R) < sizeof(S) ? (Q)std::numeric_limits<R>::denorm_min() : (Q)std::numeric_limits<S>::denorm_min();
    if ((Q)std::numeric_limits<R>::denorm_min() > dm) dm = (Q)std::numeric_limits<R>::denorm_min();
    if ((Q)std::numeric_limits<S>::denorm_min() > dm) dm = (Q)std::numeric_limits<S>::denorm_min();
    Q k = (Q)(2 * n + (1ull << n) + 2);
    Q gamma = k * u / (1 - k * u);
    // relative part (normal-range roundings) + underflow part: a weight product that underflows
    // in the coordinate type carries an absolute error of up to denorm_min(R)/2 per operation,
    // which the multiplication by the corner value then scales by |v_n|
    return 2 * gamma * absum + k * (Q)(1ull << n) * dm + k * (Q)std::numeric_limits<R>::denorm_min() * vsum;
}
}  // namespace iref
