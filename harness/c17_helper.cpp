// C17 (helper part): make_parameter_pack_for must give its i-th argument to the i-th layer,
// counted from the outside, for depths 1..10 -- exercised with layers whose configuration
// TYPES coincide at adjacent positions, the only way a positional mix-up can compile.
#include <variant>

#include <covfie/core/backend/primitive/array.hpp>
#include <covfie/core/backend/primitive/identity.hpp>
#include <covfie/core/backend/transformer/affine.hpp>
#include <covfie/core/backend/transformer/backup.hpp>
#include <covfie/core/backend/transformer/clamp.hpp>
#include <covfie/core/backend/transformer/nearest_neighbour.hpp>
#include <covfie/core/backend/transformer/strided.hpp>
#include <covfie/core/field.hpp>
#include <covfie/core/parameter_pack.hpp>

#include "vh.hpp"

namespace cb = covfie::backend;
namespace cv = covfie::vector;

using base_t = cb::identity<cv::float2>;
template <std::size_t K>
struct tower {
    using type = cb::affine<typename tower<K - 1>::type>;
};
template <>
struct tower<0> {
    using type = base_t;
};

using aff_t = covfie::algebra::affine<2, float>;
static aff_t mat(int tag)
{
    aff_t m;
    for (int i = 0; i < 2; ++i)
        for (int j = 0; j < 3; ++j) m(i, j) = (float)(100 * tag + 10 * i + j);
    return m;
}
static bool is_mat(const aff_t & m, int tag)
{
    bool ok = true;
    for (int i = 0; i < 2; ++i)
        for (int j = 0; j < 3; ++j) ok = ok && m(i, j) == (float)(100 * tag + 10 * i + j);
    return ok;
}

// walk the chain of K affine layers, layer i must hold matrix tagged i+1
template <std::size_t K, typename OD>
static int first_bad(const OD & od, int i = 0)
{
    if constexpr (K == 0) {
        return -1;
    } else {
        if (!is_mat(od.get_configuration(), i + 1)) return i;
        return first_bad<K - 1>(od.get_backend(), i + 1);
    }
}

template <std::size_t K, std::size_t... Is>
static void affine_tower(std::index_sequence<Is...>)
{
    using B = typename tower<K>::type;
    using F = covfie::field<B>;
    std::string nm = "affine^" + std::to_string(K) + "<identity<float2>>";
    vh::set_case("%s", nm.c_str());
    F f(covfie::make_parameter_pack_for<F>(mat((int)Is + 1)..., std::monostate{}));
    int bad = first_bad<K>(f.backend());
    vh::ev(K);
    vh::nontrivial(vh::fnv(nm));
    if (bad >= 0) vh::viol("helper:" + nm, "layer " + std::to_string(bad) + " (from the outside) did not receive argument " + std::to_string(bad));
    vh::sample("helper", nm + " depth=" + std::to_string(K + 1) + ": every layer holds the matrix passed at its position", 2);
}

static void strided_array()
{
    // extent and storage length are both nd_size<1>
    using B = cb::strided<cv::size1, cb::array<cv::float1>>;
    using F = covfie::field<B>;
    for (std::size_t ext = 1; ext <= 6; ++ext) {
        for (std::size_t len = ext; len <= ext + 3; ++len) {
            if (len == ext) continue;
            vh::set_case("strided<size1,array> ext=%zu len=%zu", ext, len);
            F f(covfie::make_parameter_pack_for<F>(covfie::utility::nd_size<1>{ext}, covfie::utility::nd_size<1>{len}));
            vh::ev(2);
            vh::nontrivial(vh::mix(vh::mix(77, ext), len));
            if (f.backend().get_configuration()[0] != ext || f.backend().get_backend().get_configuration()[0] != len)
                vh::viol("helper:strided<size1,array>", "extent=" + std::to_string(ext) + " length=" + std::to_string(len) + " but strided reports " +
                                                            std::to_string(f.backend().get_configuration()[0]) + " and array " + std::to_string(f.backend().get_backend().get_configuration()[0]));
        }
    }
}

// storage whose INDEX type is narrow: the reported size must be the constructed one even when it fills the index range
template <typename I>
static void narrow_index(std::size_t len)
{
    using B = cb::strided<cv::vector_d<I, 1>, cb::array<cv::float1, I>>;
    using F = covfie::field<B>;
    std::string nm = std::string("strided<") + vh::tn<I>() + "1, array<float1, " + vh::tn<I>() + ">> length " + std::to_string(len);
    vh::set_case("%s", nm.c_str());
    F f(covfie::make_parameter_pack(covfie::utility::nd_size<1>{len}, covfie::utility::nd_size<1>{len}));
    vh::ev(2);
    vh::nontrivial(vh::fnv(nm));
    std::size_t e = f.backend().get_configuration()[0], a = f.backend().get_backend().get_configuration()[0];
    if (e != len || a != len) vh::viol("readback:narrow-index-array", nm + ": strided reports " + std::to_string(e) + ", array reports " + std::to_string(a));
    // and a copy built from the reported configuration holds that many cells
    F g(covfie::make_parameter_pack(f.backend().get_configuration(), typename cb::array<cv::float1, I>::owning_data_t(f.backend().get_backend())));
    if (g.backend().get_backend().get_configuration()[0] != len) vh::viol("rebuild:narrow-index-array", nm + ": rebuilt storage reports " + std::to_string(g.backend().get_backend().get_configuration()[0]));
}

static void mixed10()
{
    using S = cb::strided<cv::size2, cb::array<cv::float2>>;                                   // depth 2
    using B = cb::affine<cb::clamp<cb::backup<cb::affine<cb::clamp<cb::nearest_neighbour<cb::clamp<cb::backup<S>>, cv::float2>>>>>>;  // depth 10
    using F = covfie::field<B>;
    static_assert(covfie::utility::backend_depth<B>::value == 10);
    vh::set_case("mixed depth 10");
    using C1 = cb::clamp<cb::backup<cb::affine<cb::clamp<cb::nearest_neighbour<cb::clamp<cb::backup<S>>, cv::float2>>>>>;
    using K1 = cb::backup<cb::affine<cb::clamp<cb::nearest_neighbour<cb::clamp<cb::backup<S>>, cv::float2>>>>;
    using C2 = cb::clamp<cb::nearest_neighbour<cb::clamp<cb::backup<S>>, cv::float2>>;
    using C3 = cb::clamp<cb::backup<S>>;
    using K2 = cb::backup<S>;
    F f(covfie::make_parameter_pack_for<F>(
        mat(1), typename C1::configuration_t{{1.f, 2.f}, {3.f, 4.f}}, typename K1::configuration_t{{5.f, 6.f}, {7.f, 8.f}, {9.f, 10.f}}, mat(2),
        typename C2::configuration_t{{11.f, 12.f}, {13.f, 14.f}}, std::monostate{}, typename C3::configuration_t{{1ul, 2ul}, {3ul, 4ul}},
        typename K2::configuration_t{{0ul, 1ul}, {2ul, 3ul}, {21.f, 22.f}}, covfie::utility::nd_size<2>{4ul, 5ul}, covfie::utility::nd_size<1>{20ul}));
    const auto & l0 = f.backend();
    const auto & l1 = l0.get_backend();
    const auto & l2 = l1.get_backend();
    const auto & l3 = l2.get_backend();
    const auto & l4 = l3.get_backend();
    const auto & l5 = l4.get_backend();
    const auto & l6 = l5.get_backend();
    const auto & l7 = l6.get_backend();
    const auto & l8 = l7.get_backend();
    const auto & l9 = l8.get_backend();
    bool ok = is_mat(l0.get_configuration(), 1) && l1.get_configuration().min[0] == 1.f && l1.get_configuration().max[1] == 4.f &&
              l2.get_configuration().min[1] == 6.f && l2.get_configuration().default_value[1] == 10.f && is_mat(l3.get_configuration(), 2) &&
              l4.get_configuration().min[0] == 11.f && l4.get_configuration().max[1] == 14.f && l6.get_configuration().min[1] == 2ul &&
              l6.get_configuration().max[0] == 3ul && l7.get_configuration().min[1] == 1ul && l7.get_configuration().max[1] == 3ul &&
              l7.get_configuration().default_value[0] == 21.f && l8.get_configuration()[0] == 4ul && l8.get_configuration()[1] == 5ul &&
              l9.get_configuration()[0] == 20ul;
    (void)l5;
    vh::ev(10);
    vh::nontrivial(vh::fnv("mixed10"));
    if (!ok) vh::viol("helper:mixed-depth-10", "some layer of the 10-deep stack reports a configuration other than the one passed at its position");
    vh::sample("helper", "affine<clamp<backup<affine<clamp<nn<clamp<backup<strided<array>>>>>>>>>> depth=10 read back", 1);
}

int main(int argc, char ** argv)
{
    vh::init(argc, argv);
    affine_tower<1>(std::make_index_sequence<1>{});
    affine_tower<2>(std::make_index_sequence<2>{});
    affine_tower<3>(std::make_index_sequence<3>{});
    affine_tower<4>(std::make_index_sequence<4>{});
    affine_tower<5>(std::make_index_sequence<5>{});
    affine_tower<6>(std::make_index_sequence<6>{});
    affine_tower<7>(std::make_index_sequence<7>{});
    affine_tower<8>(std::make_index_sequence<8>{});
    affine_tower<9>(std::make_index_sequence<9>{});
    strided_array();
    narrow_index<unsigned char>(200);
    narrow_index<unsigned char>(256);
    narrow_index<unsigned short>(300);
    narrow_index<unsigned short>(65536);
    narrow_index<unsigned>(70000);
    mixed10();
    return vh::finish();
}
