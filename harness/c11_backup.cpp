// C11: out-of-range lookups return the default without touching the backend; in-range
// lookups return exactly the backend's value (and query it exactly once).
#include <cmath>
#include <cstdint>
#include <cstring>
#include <limits>
#include <memory>
#include <sstream>
#include <variant>
#include <vector>

#include <covfie/core/backend/primitive/array.hpp>
#include <covfie/core/backend/transformer/backup.hpp>
#include <covfie/core/backend/transformer/strided.hpp>
#include <covfie/core/field.hpp>
#include <covfie/core/field_view.hpp>

#include "probes.hpp"
#include "vh.hpp"

namespace cb = covfie::backend;
namespace cv = covfie::vector;

template <typename V>
static V step(V b, int dir)
{
    if constexpr (std::is_floating_point_v<V>) {
        return std::nextafter(b, dir > 0 ? std::numeric_limits<V>::infinity() : -std::numeric_limits<V>::infinity());
    } else {
        if (dir > 0) return b == std::numeric_limits<V>::max() ? b : (V)(b + 1);
        return b == std::numeric_limits<V>::lowest() ? b : (V)(b - 1);
    }
}

template <typename V>
static V pick_bound(vh::Rng & rng)
{
    if constexpr (std::is_floating_point_v<V>) {
        return (V)(rng.range(-40, 40)) / 4;
    } else if constexpr (std::is_signed_v<V>) {
        return (V)rng.range(-12, 12);
    } else {
        return (V)rng.range(0, 24);
    }
}

template <typename V, std::size_t N, std::size_t M>
struct Case {
    using probe_t = probe::nd<cv::vector_d<V, N>, cv::vector_d<float, M>>;
    using backend_t = cb::backup<probe_t>;
    using field_t = covfie::field<backend_t>;

    static void run(vh::Rng & rng, unsigned nboxes)
    {
        std::string name = std::string("backup<probe<") + vh::tn<V>() + "," + std::to_string(N) + ">,M=" + std::to_string(M) + ">";
        if (!vh::selected(name)) return;
        std::unique_ptr<field_t> prev;
        for (unsigned b = 0; b < nboxes; ++b) {
            typename backend_t::configuration_t cfg;
            for (std::size_t k = 0; k < N; ++k) {
                V a = pick_bound<V>(rng), c = pick_bound<V>(rng);
                if (c < a) std::swap(a, c);
                if (rng.below(6) == 0) c = a;  // degenerate box
                cfg.min[k] = a;
                cfg.max[k] = c;
            }
            for (std::size_t j = 0; j < M; ++j) cfg.default_value[j] = -1000.5f - (float)j - (float)b;
            V bc_lo = 0, bc_hi = 0;
            float bc_def = 0;
            if (b % 4 == 3) {
                // the way users write a cubic box: one scalar per member, broadcast by covfie::array's scalar constructor
                bc_lo = pick_bound<V>(rng), bc_hi = pick_bound<V>(rng);
                if (bc_hi < bc_lo) std::swap(bc_lo, bc_hi);
                if (bc_lo == 0) bc_lo = (V)1;
                if (bc_hi < bc_lo) bc_hi = bc_lo;
                bc_def = -77.25f - (float)b;
                cfg.min = typename field_t::coordinate_t(bc_lo);
                cfg.max = typename field_t::coordinate_t(bc_hi);
                cfg.default_value = typename field_t::output_t(bc_def);
            }
            // what the user meant: kept apart from the configuration object handed to the library
            V want_min[N], want_max[N];
            float want_def[M];
            for (std::size_t k = 0; k < N; ++k) {
                want_min[k] = cfg.min[k];
                want_max[k] = cfg.max[k];
            }
            for (std::size_t j = 0; j < M; ++j) want_def[j] = cfg.default_value[j];
            if (b % 4 == 3) {
                for (std::size_t k = 0; k < N; ++k) {
                    want_min[k] = bc_lo;
                    want_max[k] = bc_hi;
                }
                for (std::size_t j = 0; j < M; ++j) want_def[j] = bc_def;
            }
            vh::set_case("%s box#%u", name.c_str(), b);
            // two out of three fields reach their configuration by ASSIGNMENT over the previous iteration's field
            // (another box, another default): nothing of the old value may survive
            field_t built(covfie::make_parameter_pack(std::move(cfg), std::monostate{}));
            std::unique_ptr<field_t> target = std::move(prev);
            field_t * use = &built;
            if (target && b % 3 == 1) {
                *target = built;
                use = target.get();
            } else if (target && b % 3 == 2) {
                *target = std::move(built);
                use = target.get();
            }
            field_t & f = *use;
            prev = std::make_unique<field_t>(f);
            typename field_t::view_t view(f);
            probe::NdLog & log = f.backend().get_backend().log();
            auto conf = f.backend().get_configuration();
            {
                bool same = true;
                for (std::size_t k = 0; k < N; ++k) same = same && conf.min[k] == want_min[k] && conf.max[k] == want_max[k];
                for (std::size_t j = 0; j < M; ++j) same = same && conf.default_value[j] == want_def[j];
                vh::ev();
                if (!same) vh::viol(name + ":box-not-as-configured", "configured box=[" + vh::jarr(want_min, N) + "," + vh::jarr(want_max, N) + "] default=" + vh::jarr(want_def, M) + " but the field holds [" + vh::jarr(conf.min, N) + "," + vh::jarr(conf.max, N) + "] default=" + vh::jarr(conf.default_value, M));
                for (std::size_t k = 0; k < N; ++k) {
                    conf.min[k] = want_min[k];
                    conf.max[k] = want_max[k];
                }
                for (std::size_t j = 0; j < M; ++j) conf.default_value[j] = want_def[j];
            }

            // per axis: the catalogue around each bound
            std::vector<V> cat[N];
            for (std::size_t k = 0; k < N; ++k) {
                V lo = conf.min[k], hi = conf.max[k];
                for (V x : {lo, step(lo, -1), step(lo, +1), hi, step(hi, -1), step(hi, +1), (V)((lo + hi) / 2),
                            std::numeric_limits<V>::max(), std::numeric_limits<V>::lowest(), (V)0})
                    cat[k].push_back(x);
                if constexpr (std::is_floating_point_v<V>) {
                    cat[k].push_back(std::numeric_limits<V>::infinity());
                    cat[k].push_back(-std::numeric_limits<V>::infinity());
                    cat[k].push_back(std::numeric_limits<V>::denorm_min());
                    cat[k].push_back(-(V)0);
                }
            }
            uint64_t total = 1;
            for (std::size_t k = 0; k < N; ++k) total *= cat[k].size();
            uint64_t nq = total <= 4096 ? total : 4096;
            for (uint64_t q = 0; q < nq; ++q) {
                typename field_t::coordinate_t c;
                uint64_t r = total <= 4096 ? q : rng.below(total);
                for (std::size_t k = 0; k < N; ++k) {
                    c[k] = cat[k][r % cat[k].size()];
                    r /= cat[k].size();
                }
                bool inside = true, near = false;
                for (std::size_t k = 0; k < N; ++k) {
                    // closed-box membership, evaluated in long double (exact for every value used)
                    long double x = (long double)c[k], lo = (long double)conf.min[k], hi = (long double)conf.max[k];
                    inside = inside && !(x < lo) && !(x > hi);
                    near = near || c[k] == conf.min[k] || c[k] == conf.max[k] || c[k] == step(conf.min[k], -1) || c[k] == step(conf.min[k], 1) ||
                           c[k] == step(conf.max[k], -1) || c[k] == step(conf.max[k], 1);
                }
                uint64_t before = log.queries;
                typename field_t::output_t got = view.at(c);
                uint64_t delta = log.queries - before;
                vh::ev();
                if (near) vh::nontrivial(vh::fnv(&c, sizeof c, vh::fnv(&conf, sizeof conf, vh::fnv(name))));
                std::string d = "box=[" + vh::jarr(conf.min, N) + "," + vh::jarr(conf.max, N) + "] c=" + vh::jarr(c, N) + " backend_queries=" + std::to_string(delta) + " got=" + vh::jarr(got, M);
                if (inside) {
                    bool ok = delta >= 1;  // how often the backend is asked inside the box is the layer's business
                    for (std::size_t j = 0; j < M; ++j) ok = ok && got[j] == (float)probe_t::value(c, j);
                    if (!ok) vh::viol(name + ":inside", d + " expected the backend's value (and at least one query of the backend)");
                    vh::stat("inside");
                } else {
                    bool ok = delta == 0;
                    for (std::size_t j = 0; j < M; ++j) ok = ok && got[j] == conf.default_value[j];
                    if (!ok) vh::viol(name + ":outside", d + " expected the default and no query");
                    vh::stat("outside");
                }
                if (q == 5 && b == 0) vh::sample(name, d + (inside ? " inside" : " outside"), 1);
            }
        }
    }
};

// backup over real array storage: an out-of-range lookup that touched the backend would be an
// out-of-bounds read (ASan / library assertion)
// what the cell with this id stores: mostly id / id + 0.5, but some cells hold NaN, an infinity or a negative zero
// (a measured map with holes); inside the box the layer returns the cell AS STORED
static inline void stored_cell(uint64_t id, float * out)
{
    out[0] = (float)id;
    out[1] = (float)id + 0.5f;
    if (id % 7 == 3) out[0] = std::numeric_limits<float>::quiet_NaN();
    if (id % 7 == 5) out[1] = -std::numeric_limits<float>::infinity();
    if (id % 11 == 0) out[0] = -0.f;
    if (id % 13 == 6) out[0] = out[1] = std::numeric_limits<float>::quiet_NaN();
}
static inline bool same_bits(float a, float b)
{
    return std::memcmp(&a, &b, 4) == 0;
}

template <std::size_t N>
static void over_array(vh::Rng & rng, unsigned nfields)
{
    using strided_t = cb::strided<cv::vector_d<std::size_t, N>, cb::array<cv::float2>>;
    using backend_t = cb::backup<strided_t>;
    using field_t = covfie::field<backend_t>;
    std::string name = "backup<strided<array>>,N=" + std::to_string(N);
    if (!vh::selected(name)) return;
    for (unsigned fi = 0; fi < nfields; ++fi) {
        covfie::utility::nd_size<N> ext;
        typename backend_t::configuration_t cfg;
        for (std::size_t k = 0; k < N; ++k) {
            ext[k] = 1 + rng.below(N <= 2 ? 20 : 6);
            cfg.min[k] = rng.below(ext[k]);
            cfg.max[k] = cfg.min[k] + rng.below(ext[k] - cfg.min[k]);
            if (rng.below(3) == 0) {
                cfg.min[k] = 0;
                cfg.max[k] = ext[k] - 1;
            }
        }
        cfg.default_value = {-7.f, -8.f};
        vh::set_case("%s field#%u extents=%s", name.c_str(), fi, vh::jarr(ext, N).c_str());
        field_t f(covfie::make_parameter_pack(std::move(cfg), typename strided_t::configuration_t(ext)));
        typename strided_t::non_owning_data_t raw(f.backend().get_backend());
        {
            uint64_t c[N] = {};
            for (;;) {
                typename strided_t::coordinate_t cc;
                uint64_t id = 0;
                for (std::size_t k = 0; k < N; ++k) {
                    cc[k] = c[k];
                    id = id * 64 + c[k];
                }
                float cell[2];
                stored_cell(id, cell);
                raw.at(cc)[0] = cell[0];
                raw.at(cc)[1] = cell[1];
                std::size_t k = 0;
                while (k < N && ++c[k] >= ext[k]) c[k++] = 0;
                if (k == N) break;
            }
        }
        const auto conf = f.backend().get_configuration();
        // every second field is looked up through a copy that went through dump + load
        std::stringstream ss(std::ios::in | std::ios::out | std::ios::binary);
        f.dump(ss);
        field_t reloaded(static_cast<std::istream &>(ss));
        typename field_t::view_t view((fi & 1) ? reloaded : f);
        const std::string bytes_before = ss.str();
        for (unsigned q = 0; q < 600; ++q) {
            typename field_t::coordinate_t c;
            bool inside = true;
            uint64_t id = 0;
            for (std::size_t k = 0; k < N; ++k) {
                switch (rng.below(8)) {
                case 0: c[k] = conf.min[k]; break;
                case 1: c[k] = conf.max[k]; break;
                case 2: c[k] = conf.max[k] + 1; break;
                case 3: c[k] = conf.min[k] - 1; break;  // wraps to SIZE_MAX when min == 0
                case 4: c[k] = ~(std::size_t)0 - rng.below(3); break;
                case 5: c[k] = ext[k] + rng.below(1000); break;
                default: c[k] = rng.below(ext[k]); break;
                }
                inside = inside && c[k] >= conf.min[k] && c[k] <= conf.max[k];
                id = id * 64 + c[k];
            }
            typename field_t::output_t got = view.at(c);
            vh::ev();
            vh::nontrivial(vh::fnv(&c, sizeof c, vh::fnv(&conf, sizeof conf, vh::fnv(name))));
            float cell[2];
            stored_cell(id, cell);
            bool ok = inside ? (same_bits(got[0], cell[0]) && same_bits(got[1], cell[1])) : (got[0] == -7.f && got[1] == -8.f);
            if (!ok) vh::viol(name, "extents=" + vh::jarr(ext, N) + " box=[" + vh::jarr(conf.min, N) + "," + vh::jarr(conf.max, N) + "] c=" + vh::jarr(c, N) + " got=" + vh::jarr(got, 2) + (inside ? " inside" : " outside"));
        }
        // lookups never modify the field: its serialised form is byte-identical afterwards
        {
            std::stringstream after(std::ios::in | std::ios::out | std::ios::binary);
            ((fi & 1) ? reloaded : f).dump(after);
            if (after.str() != bytes_before) vh::viol(name + ":lookup-modified-field", "extents=" + vh::jarr(ext, N) + ": the field's dump differs after 600 lookups (cells holding NaN / inf / -0 included)");
        }
    }
}

template <typename V>
static void all_nm(vh::Rng & rng, unsigned nb)
{
    Case<V, 1, 1>::run(rng, nb);
    Case<V, 1, 3>::run(rng, nb);
    Case<V, 2, 2>::run(rng, nb);
    Case<V, 2, 4>::run(rng, nb);
    Case<V, 3, 1>::run(rng, nb);
    Case<V, 3, 3>::run(rng, nb);
    Case<V, 4, 2>::run(rng, nb);
    Case<V, 4, 4>::run(rng, nb);
}

int main(int argc, char ** argv)
{
    vh::init(argc, argv);
    vh::Rng rng(vh::st().seed * 49979687 + 11);
    unsigned nb = vh::st().thorough ? 400 : 30;
#if defined(SH_INT)
    all_nm<unsigned>(rng, nb);
    all_nm<std::size_t>(rng, nb);
    all_nm<int>(rng, nb);
    Case<std::size_t, 1, 2>::run(rng, nb);
    Case<std::size_t, 1, 4>::run(rng, nb);
    Case<std::size_t, 2, 1>::run(rng, nb);
    Case<std::size_t, 2, 3>::run(rng, nb);
    Case<std::size_t, 3, 2>::run(rng, nb);
    Case<std::size_t, 3, 4>::run(rng, nb);
    Case<std::size_t, 4, 1>::run(rng, nb);
    Case<std::size_t, 4, 3>::run(rng, nb);
    over_array<1>(rng, nb);
    over_array<2>(rng, nb);
    over_array<3>(rng, nb);
    over_array<4>(rng, nb);
#endif
#if defined(SH_REAL)
    all_nm<float>(rng, nb);
    all_nm<double>(rng, nb);
    Case<float, 1, 2>::run(rng, nb);
    Case<float, 1, 4>::run(rng, nb);
    Case<float, 2, 1>::run(rng, nb);
    Case<float, 2, 3>::run(rng, nb);
    Case<float, 3, 2>::run(rng, nb);
    Case<float, 3, 4>::run(rng, nb);
    Case<float, 4, 1>::run(rng, nb);
    Case<float, 4, 3>::run(rng, nb);
#endif
    return vh::finish();
}
