// C13, well-kinded compositions at the edges of the kind rules (outside the generated zoo):
//   PART 0-3  storage whose ARRAY INDEX TYPE is narrower than size_t (array<V, uint8/16/32>) beneath each storage order
//             (strided, morton<true>, morton<false>, hilbert): the layer above must produce that index type;
//   PART 4    stacks whose view state is EXACTLY the 256 bytes the library allows (and 240): accepted, whole API;
//   PART 5    INTEGER-valued array storage beneath each storage order.
// Every part runs the field API (construct, view, at, write, copy, move, copy-/move-assign, configuration, dump, load,
// conversion where the family has one) with value checks.  One translation unit per part: a compile failure is that part's.
#include <cstdint>
#include <sstream>
#include <string>
#include <variant>

#include <covfie/core/backend/primitive/array.hpp>
#include <covfie/core/backend/primitive/constant.hpp>
#include <covfie/core/backend/transformer/affine.hpp>
#include <covfie/core/backend/transformer/backup.hpp>
#include <covfie/core/backend/transformer/clamp.hpp>
#include <covfie/core/backend/transformer/hilbert.hpp>
#include <covfie/core/backend/transformer/morton.hpp>
#include <covfie/core/backend/transformer/strided.hpp>
#include <covfie/core/field.hpp>
#include <covfie/core/field_view.hpp>

#include "vh.hpp"

namespace cb = covfie::backend;
namespace cv = covfie::vector;

#if PART <= 3
template <int O, typename C, std::size_t N, typename ARR>
struct order_of {
    using idx = cv::vector_d<C, N>;
    using type = std::conditional_t<O == 0, cb::strided<idx, ARR>, std::conditional_t<O == 1, cb::morton<idx, ARR, true>, std::conditional_t<O == 2, cb::morton<idx, ARR, false>, cb::hilbert<idx, ARR>>>>;
};
static const char * oname[] = {"strided", "morton<true>", "morton<false>", "hilbert"};

// C: coordinate scalar; AI: the array's index type; N dims; M components
template <int O, typename C, typename AI, std::size_t N, std::size_t M>
static void narrow(const std::size_t * extv)
{
    using ARR = cb::array<cv::vector_d<float, M>, AI>;
    using B = typename order_of<O, C, N, ARR>::type;
    using SRC = cb::strided<cv::vector_d<C, N>, ARR>;
    using F = covfie::field<B>;
    const std::string nm = std::string(oname[O]) + "<" + vh::tn<C>() + "," + std::to_string(N) + ">,array<float" + std::to_string(M) + ",index=" + vh::tn<AI>() + ">";
    if (!vh::selected(nm)) return;
    vh::set_case("%s", nm.c_str());
    covfie::utility::nd_size<N> ext;
    std::size_t mx = 0, side = 1, len = 1, cells = 1;
    for (std::size_t k = 0; k < N; ++k) {
        ext[k] = extv[k];
        mx = ext[k] > mx ? ext[k] : mx;
        cells *= ext[k];
    }
    while (side < mx) side *= 2;
    for (std::size_t k = 0; k < N; ++k) len *= (O == 0 ? ext[k] : side);
    auto value = [&](const uint64_t * c, std::size_t j) {
        uint64_t id = 0;
        for (std::size_t k = 0; k < N; ++k) id = id * 16 + c[k];
        return (float)(id * 4 + j) + 0.5f;
    };
    auto each = [&](auto && fn) {
        uint64_t c[N] = {};
        for (;;) {
            fn(c);
            std::size_t k = 0;
            while (k < N && ++c[k] >= ext[k]) c[k++] = 0;
            if (k == N) break;
        }
    };
    auto expect = [&](const F & f, const char * what) {
        typename F::view_t v(f);
        bool ok = true;
        each([&](const uint64_t * c) {
            typename F::coordinate_t cc;
            for (std::size_t k = 0; k < N; ++k) cc[k] = (C)c[k];
            for (std::size_t j = 0; j < M && ok; ++j) {
                vh::ev();
                if (v.at(cc)[j] != value(c, j)) {
                    vh::viol(std::string("narrow-array-index:") + what, nm + ": cell " + vh::jarr(c, N) + " component " + std::to_string(j) + " differs after " + what);
                    ok = false;
                }
            }
        });
        auto e = f.backend().get_configuration();
        for (std::size_t k = 0; k < N; ++k)
            if (e[k] != ext[k]) vh::viol(std::string("narrow-array-index:") + what + ":configuration", nm);
    };
    // construct, write through the view, read back
    F f(covfie::make_parameter_pack(typename B::configuration_t(ext), typename ARR::configuration_t{len}));
    {
        typename F::view_t v(f);
        each([&](const uint64_t * c) {
            typename F::coordinate_t cc;
            for (std::size_t k = 0; k < N; ++k) cc[k] = (C)c[k];
            for (std::size_t j = 0; j < M; ++j) v.at(cc)[j] = value(c, j);
        });
    }
    expect(f, "construct+write");
    F g(f);
    expect(g, "copy");
    F h(std::move(g));
    expect(h, "move");
    F a(covfie::make_parameter_pack(typename B::configuration_t(ext), typename ARR::configuration_t{len}));
    a = f;
    expect(a, "copy-assign");
    F b(covfie::make_parameter_pack(typename B::configuration_t(ext), typename ARR::configuration_t{len}));
    b = std::move(a);
    expect(b, "move-assign");
    {
        std::stringstream ss(std::ios::in | std::ios::out | std::ios::binary);
        f.dump(ss);
        F r(static_cast<std::istream &>(ss));
        expect(r, "dump+load");
    }
    if constexpr (O != 0) {
        // conversion from / to the row-major order over the same (narrow-indexed) storage type
        covfie::field<SRC> s(f);
        F back(s);
        expect(back, "convert");
    }
    expect(f, "original after all members");
    vh::nontrivial(vh::fnv(nm));
    vh::stat("narrow_index_stacks");
    vh::sample("narrow-array-index", nm + " cells=" + std::to_string(cells) + " storage=" + std::to_string(len), 4);
}
#endif

#if PART == 5
// INTEGER-valued array storage (array<int2>, array<uint1>, array<long3>): a well-kinded stack like any other.  Dumping it
// is declared (write_binary exists for every array); whether an integer payload can be written is a run-time matter:
// an exception is an answer, a translation unit that stops compiling is not.
template <typename S, std::size_t M, int O>
static void integer_array()
{
    using ARR = cb::array<cv::vector_d<S, M>>;
    using B = std::conditional_t<O == 0, cb::strided<cv::size2, ARR>, std::conditional_t<O == 1, cb::morton<cv::size2, ARR>, cb::hilbert<cv::size2, ARR>>>;
    using F = covfie::field<B>;
    const std::string nm = std::string(O == 0 ? "strided" : O == 1 ? "morton" : "hilbert") + "<size2,array<" + vh::tn<S>() + "," + std::to_string(M) + ">>";
    if (!vh::selected(nm)) return;
    vh::set_case("%s", nm.c_str());
    const std::size_t ex = 3, ey = 5, len = O == 0 ? 15 : 64;
    auto value = [](std::size_t x, std::size_t y, std::size_t j) { return (S)(100 * x + 10 * y + j + 1); };
    auto expect = [&](const F & f, const char * what) {
        typename F::view_t v(f);
        for (std::size_t x = 0; x < ex; ++x)
            for (std::size_t y = 0; y < ey; ++y)
                for (std::size_t j = 0; j < M; ++j) {
                    vh::ev();
                    if (v.at(x, y)[j] != value(x, y, j)) {
                        vh::viol(std::string("integer-array:") + what, nm + ": cell (" + std::to_string(x) + "," + std::to_string(y) + ") differs after " + what);
                        return;
                    }
                }
    };
    F f(covfie::make_parameter_pack(typename B::configuration_t{ex, ey}, typename ARR::configuration_t{len}));
    {
        typename F::view_t v(f);
        for (std::size_t x = 0; x < ex; ++x)
            for (std::size_t y = 0; y < ey; ++y)
                for (std::size_t j = 0; j < M; ++j) v.at(x, y)[j] = value(x, y, j);
    }
    expect(f, "construct+write");
    F g(f);
    expect(g, "copy");
    F h(std::move(g));
    expect(h, "move");
    F a(covfie::make_parameter_pack(typename B::configuration_t{2ul, 2ul}, typename ARR::configuration_t{O == 0 ? 4ul : 4ul}));
    a = f;
    expect(a, "copy-assign");
    a = std::move(h);
    expect(a, "move-assign");
    if constexpr (O != 0) {
        covfie::field<cb::strided<cv::size2, ARR>> s(f);
        F back(s);
        expect(back, "convert");
    }
    // dump: completes (then the bytes load back) or throws a std::exception -- both are answers
    try {
        std::stringstream ss(std::ios::in | std::ios::out | std::ios::binary);
        f.dump(ss);
        vh::stat("integer_array_dumps_written");
        F r(static_cast<std::istream &>(ss));
        expect(r, "dump+load");
    } catch (const std::exception &) {
        vh::stat("integer_array_dumps_refused_with_an_exception");
    }
    expect(f, "original after all members");
    vh::nontrivial(vh::fnv(nm));
    vh::stat("integer_array_stacks");
    vh::sample("integer-array", nm + ": whole API; dump answered at run time", 3);
}
#endif

#if PART == 4
// a stack answering a constant everywhere; VIEW bytes pinned by a static_assert on the layer's own view state type
template <typename B, std::size_t BYTES, typename MAKE>
static void at_the_limit(const char * nm, MAKE make, const double * want, std::size_t M)
{
    static_assert(sizeof(typename B::non_owning_data_t) == BYTES, "the harness's size bookkeeping for this stack is wrong");
    using F = covfie::field<B>;
    if (!vh::selected(nm)) return;
    vh::set_case("%s (view state %zu bytes)", nm, BYTES);
    auto expect = [&](const F & f, const char * what) {
        typename F::view_t v(f);
        typename F::coordinate_t c;
        for (std::size_t k = 0; k < F::coordinate_t::dimensions; ++k) c[k] = (typename F::coordinate_t::value_type)(0.25 * (double)(k + 1));
        typename F::output_t r = v.at(c);
        for (std::size_t j = 0; j < M; ++j) {
            vh::ev();
            if ((double)r[j] != want[j]) vh::viol(std::string("view-limit:") + what, std::string(nm) + ": component " + std::to_string(j) + " after " + what);
        }
    };
    F f = make();
    expect(f, "construct");
    F g(f);
    expect(g, "copy");
    F h(std::move(g));
    expect(h, "move");
    F a = make();
    a = f;
    expect(a, "copy-assign");
    F b = make();
    b = std::move(a);
    expect(b, "move-assign");
    std::stringstream ss(std::ios::in | std::ios::out | std::ios::binary);
    f.dump(ss);
    F r(static_cast<std::istream &>(ss));
    expect(r, "dump+load");
    vh::nontrivial(vh::fnv(nm));
    vh::stat("view_limit_stacks");
    vh::sample("view-limit", std::string(nm) + ": " + std::to_string(BYTES) + " bytes of view state, whole API", 4);
}
#endif

int main(int argc, char ** argv)
{
    vh::init(argc, argv);
#if PART <= 3
    static const std::size_t e1[] = {13}, e2[] = {5, 3}, e2b[] = {4, 4}, e3[] = {3, 2, 5}, e4[] = {2, 3, 2, 3};
    (void)e1;
    (void)e3;
    (void)e4;
#if PART == 3
    narrow<3, std::size_t, std::uint32_t, 2, 1>(e2);
    narrow<3, unsigned, std::uint32_t, 2, 3>(e2b);
    narrow<3, unsigned, std::uint16_t, 2, 2>(e2);
    narrow<3, std::size_t, std::uint8_t, 2, 1>(e2);
#else
    narrow<PART, std::size_t, std::uint32_t, 1, 1>(e1);
    narrow<PART, unsigned, std::uint32_t, 2, 1>(e2);
    narrow<PART, unsigned, std::uint32_t, 3, 2>(e3);
    narrow<PART, std::size_t, std::uint32_t, 4, 1>(e4);
    narrow<PART, unsigned, std::uint16_t, 2, 3>(e2);
    narrow<PART, unsigned short, std::uint16_t, 3, 1>(e3);
    narrow<PART, std::size_t, std::uint8_t, 2, 1>(e2b);
    narrow<PART, unsigned char, std::uint8_t, 1, 2>(e1);
#endif
#endif
#if PART == 5
    integer_array<int, 2, 0>();
    integer_array<unsigned, 1, 0>();
    integer_array<long, 3, 0>();
    integer_array<int, 1, 1>();
    integer_array<unsigned long, 2, 1>();
    integer_array<int, 3, 2>();
#endif
#if PART == 4
    {
        using K = cb::constant<cv::double4, cv::double4>;
        using B = cb::affine<cb::clamp<K>>;
        static const double want[] = {1.5, -2.0, 3.25, 7.0};
        at_the_limit<B, 256>("affine<clamp<constant<double4,double4>>>", [] {
            typename B::configuration_t m(B::matrix_t::identity());
            typename cb::clamp<K>::configuration_t box;
            for (std::size_t k = 0; k < 4; ++k) {
                box.min[k] = -1.0;
                box.max[k] = 2.0;
            }
            return covfie::field<B>(covfie::make_parameter_pack(std::move(m), std::move(box), typename K::configuration_t{1.5, -2.0, 3.25, 7.0}));
        }, want, 4);
    }
    {
        using K = cb::constant<cv::double3, cv::double2>;
        using B = cb::affine<cb::affine<cb::clamp<K>>>;
        static const double want[] = {0.5, 9.0};
        at_the_limit<B, 256>("affine<affine<clamp<constant<double3,double2>>>>", [] {
            typename B::configuration_t m(B::matrix_t::identity());
            typename cb::affine<cb::clamp<K>>::configuration_t m2(cb::affine<cb::clamp<K>>::matrix_t::identity());
            typename cb::clamp<K>::configuration_t box;
            for (std::size_t k = 0; k < 3; ++k) {
                box.min[k] = 0.0;
                box.max[k] = 1.0;
            }
            return covfie::field<B>(covfie::make_parameter_pack(std::move(m), std::move(m2), std::move(box), typename K::configuration_t{0.5, 9.0}));
        }, want, 2);
    }
    {
        using K = cb::constant<cv::double3, cv::double4>;
        using B = cb::affine<cb::clamp<cb::backup<K>>>;
        static const double want[] = {4.0, 3.0, 2.0, 1.0};
        at_the_limit<B, 256>("affine<clamp<backup<constant<double3,double4>>>>", [] {
            typename B::configuration_t m(B::matrix_t::identity());
            typename cb::clamp<cb::backup<K>>::configuration_t box;
            typename cb::backup<K>::configuration_t bk;
            for (std::size_t k = 0; k < 3; ++k) {
                box.min[k] = 0.0;
                box.max[k] = 1.0;
                bk.min[k] = -5.0;
                bk.max[k] = 5.0;
            }
            for (std::size_t j = 0; j < 4; ++j) bk.default_value[j] = -1.0;
            return covfie::field<B>(covfie::make_parameter_pack(std::move(m), std::move(box), std::move(bk), typename K::configuration_t{4.0, 3.0, 2.0, 1.0}));
        }, want, 4);
    }
    {
        // sixteen bytes below the limit
        using K = cb::constant<cv::double3, cv::double3>;
        using B = cb::affine<cb::clamp<cb::backup<K>>>;
        static const double want[] = {4.0, 3.0, 2.0};
        at_the_limit<B, 240>("affine<clamp<backup<constant<double3,double3>>>>", [] {
            typename B::configuration_t m(B::matrix_t::identity());
            typename cb::clamp<cb::backup<K>>::configuration_t box;
            typename cb::backup<K>::configuration_t bk;
            for (std::size_t k = 0; k < 3; ++k) {
                box.min[k] = 0.0;
                box.max[k] = 1.0;
                bk.min[k] = -5.0;
                bk.max[k] = 5.0;
            }
            for (std::size_t j = 0; j < 3; ++j) bk.default_value[j] = -1.0;
            return covfie::field<B>(covfie::make_parameter_pack(std::move(m), std::move(box), std::move(bk), typename K::configuration_t{4.0, 3.0, 2.0}));
        }, want, 3);
    }
#endif
    return vh::finish();
}
