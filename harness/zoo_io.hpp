// zoo_io.hpp -- IO drivers over generated stack descriptions: C06 (dump/load/dump),
// C07 (cross-type loads, rounding oracle), C08 (fault enumeration on damaged streams).
#pragma once
#include <cmath>
#include <cstring>
#include <exception>
#include <istream>
#include <limits>
#include <sstream>
#include <streambuf>
#include <string>
#include <vector>

#include "model.hpp"
#include "vh.hpp"
#include "zoo_drivers.hpp"

#if defined(VH_VALGRIND)
#include <valgrind/memcheck.h>
#endif

namespace zio {

inline std::string hex(const std::string & s)
{
    static const char * d = "0123456789abcdef";
    std::string o;
    o.reserve(s.size() * 2);
    for (unsigned char c : s) {
        o.push_back(d[c >> 4]);
        o.push_back(d[c & 15]);
    }
    return o;
}

// special bit patterns for stored scalars
template <typename S>
inline S pattern(vh::Rng & rng, bool & special)
{
    using U = std::conditional_t<sizeof(S) == 4, uint32_t, uint64_t>;
    constexpr int mant = std::numeric_limits<S>::digits - 1;
    constexpr U expmask = (U)((((U)1 << (sizeof(S) * 8 - 1 - mant)) - 1)) << mant;
    U bits;
    special = true;
    switch (rng.below(10)) {
    case 0: bits = 0; break;                                                         // +0
    case 1: bits = (U)1 << (sizeof(S) * 8 - 1); break;                               // -0
    case 2: bits = 1 + (U)rng.below(1000); break;                                    // subnormal
    case 3: bits = ((U)1 << (sizeof(S) * 8 - 1)) | (((U)1 << mant) - 1 - (U)rng.below(1000)); break;  // negative subnormal
    case 4: bits = expmask; break;                                                   // +inf
    case 5: bits = expmask | ((U)1 << (sizeof(S) * 8 - 1)); break;                   // -inf
    case 6: bits = expmask | ((U)1 << (mant - 1)) | ((U)rng.next() & (((U)1 << (mant - 1)) - 1)); break;  // quiet NaN + payload
    case 7: bits = expmask | (1 + ((U)rng.next() & (((U)1 << (mant - 1)) - 2))) | ((U)(rng.coin()) << (sizeof(S) * 8 - 1)); break;  // signalling NaN + payload
    default:
        bits = (U)rng.next();
        special = false;
        break;
    }
    S v;
    std::memcpy(&v, &bits, sizeof v);
    return v;
}

template <class Z>
inline std::string dump(const typename Z::field_t & f)
{
    std::ostringstream os(std::ios::binary);
    f.dump(os);
    return os.str();
}

// bitwise comparison of the innermost storage of two fields of the same description
template <class Z>
inline std::string storage_differs(const typename Z::field_t & a, const typename Z::field_t & b)
{
    if constexpr (Z::has_array) {
        const auto & sa = Z::storage(a);
        const auto & sb = Z::storage(b);
        if (sa.get_configuration()[0] != sb.get_configuration()[0]) return "storage length " + std::to_string(sb.get_configuration()[0]) + " != " + std::to_string(sa.get_configuration()[0]);
        typename Z::array_t::non_owning_data_t va(sa), vb(sb);
        for (uint64_t i = 0; i < Z::array_len; ++i)
            for (uint64_t j = 0; j < Z::array_m; ++j) {
                auto x = va.at(i)[j];
                auto y = vb.at(i)[j];
                if (std::memcmp(&x, &y, sizeof x) != 0) {
                    char buf[160];
                    std::snprintf(buf, sizeof buf, "cell %llu component %llu: bits differ (%a vs %a)", (unsigned long long)i, (unsigned long long)j, (double)x, (double)y);
                    return buf;
                }
            }
    }
    return "";
}

// ------------------------------------------------------------------ C06
template <class Z>
inline void drive_c06()
{
    if (!vh::selected(Z::name())) return;
    vh::Rng rng(vh::st().seed * 32416190071ull + vh::fnv(Z::name()));
    const std::string ts = std::string(Z::type_string()) + " [" + Z::name() + "]";
    unsigned rounds = vh::st().thorough ? 6 : 2;
    for (unsigned r = 0; r < rounds; ++r) {
        vh::set_case("%s dump/load round %u", Z::name(), r);
        typename Z::field_t f = Z::make();
        bool any_special = false;
        if constexpr (Z::has_array) {
            typename Z::array_t::non_owning_data_t v(Z::storage(f));
            using S = std::decay_t<decltype(v.at(0)[0])>;
            for (uint64_t i = 0; i < Z::array_len; ++i)
                for (uint64_t j = 0; j < Z::array_m; ++j) {
                    bool sp;
                    S val = pattern<S>(rng, sp);
                    any_special = any_special || sp;
                    std::memcpy(&v.at(i)[j], &val, sizeof val);  // bit pattern, not a value copy
                }
        }
        std::string d1 = dump<Z>(f);
        std::istringstream is(d1, std::ios::binary);
        typename Z::field_t g(is);
        vh::ev();
        if (any_special || !Z::has_array) vh::nontrivial(vh::mix(vh::fnv(Z::name()), r));
        int bad = Z::config_mismatch(g);
        if (bad >= 0) vh::viol("reload:configuration", ts + " layer " + std::to_string(bad) + " of the reloaded field reports a different configuration");
        std::string w = storage_differs<Z>(f, g);
        if (!w.empty()) vh::viol("reload:stored-bits", ts + " " + w);
        std::string d2 = dump<Z>(g);
        if (d1 != d2) {
            size_t p = 0;
            while (p < d1.size() && p < d2.size() && d1[p] == d2[p]) ++p;
            vh::viol("redump:bytes", ts + " second dump differs from the first at byte " + std::to_string(p) + " (lengths " + std::to_string(d1.size()) + "/" + std::to_string(d2.size()) + ")");
        }
        // the stream must have been consumed exactly
        if (is.peek() != std::char_traits<char>::eof()) vh::viol("reload:trailing-bytes", ts + " loader left bytes unread");
        if (r == 0) {
            std::printf("@DUMP %s\t%s\n", Z::name(), hex(d1).c_str());
            vh::sample("dump", ts + " bytes=" + std::to_string(d1.size()), 3);
            vh::stat("dump_bytes", d1.size());
        }
        vh::stat("roundtrips");
    }
    vh::stat("stacks");
}

// ------------------------------------------------------------------ fault-injecting stream buffer
struct FaultyBuf : std::streambuf {
    std::string data;
    size_t pos = 0;
    long fail_call = -1;  // fail from this read call on (0-based); -1 never
    bool throwing = false;
    long calls = 0;
    explicit FaultyBuf(std::string d)
        : data(std::move(d))
    {
    }
    struct Boom : std::exception {
        const char * what() const noexcept override
        {
            return "injected stream failure";
        }
    };
    bool tripped()
    {
        if (fail_call >= 0 && calls >= fail_call) {
            if (throwing) throw Boom();
            return true;
        }
        return false;
    }
    std::streamsize xsgetn(char * s, std::streamsize n) override
    {
        if (tripped()) return 0;
        ++calls;
        size_t k = std::min<size_t>((size_t)n, data.size() - pos);
        std::memcpy(s, data.data() + pos, k);
        pos += k;
        return (std::streamsize)k;
    }
    int_type underflow() override
    {
        if (tripped()) return traits_type::eof();
        ++calls;
        if (pos >= data.size()) return traits_type::eof();
        return traits_type::to_int_type(data[pos]);
    }
    int_type uflow() override
    {
        if (tripped()) return traits_type::eof();
        ++calls;
        if (pos >= data.size()) return traits_type::eof();
        return traits_type::to_int_type(data[pos++]);
    }
};

enum Outcome { REJECTED, RETURNED_FIELD, FOREIGN_EXCEPTION };

// offers one damaged stream to the loader, in-process
template <class Z>
inline Outcome offer(FaultyBuf & fb, bool prefail, std::string & what, std::ios::iostate mask = std::ios::goodbit)
{
    std::istream is(&fb);
    if (prefail) is.setstate(std::ios::failbit);
    try {
        // the caller may have asked the stream to throw on failure (ifs.exceptions(failbit | badbit)): whichever
        // exception reaches the caller then, it is an exception and not an abort
        if (mask != std::ios::goodbit) is.exceptions(mask);
        typename Z::field_t g(is);
        return RETURNED_FIELD;
    } catch (const std::exception & e) {
        what = e.what();
        return REJECTED;
    } catch (...) {
        what = "non-std exception";
        return FOREIGN_EXCEPTION;
    }
}

template <class Z>
inline void one_fault(const std::string & key_kind, const std::string & detail, FaultyBuf & fb, bool prefail, uint64_t h, std::ios::iostate mask = std::ios::goodbit)
{
    vh::set_case("%s %s %s", Z::name(), key_kind.c_str(), detail.c_str());
#if defined(VH_VALGRIND)
    unsigned long e0 = VALGRIND_COUNT_ERRORS;
#endif
    std::string what;
    Outcome o = offer<Z>(fb, prefail, what, mask);
    vh::ev();
    vh::nontrivial(vh::mix(vh::fnv(key_kind, vh::fnv(Z::name())), h));
    vh::stat("faults:" + key_kind);
    const std::string ts = std::string(Z::type_string()) + " [" + Z::name() + "] ";
    if (o == RETURNED_FIELD) vh::viol(key_kind + ":accepted", ts + detail + ": the loader returned a field");
    if (o == FOREIGN_EXCEPTION) vh::viol(key_kind + ":non-std-exception", ts + detail);
#if defined(VH_VALGRIND)
    unsigned long e1 = VALGRIND_COUNT_ERRORS;
    if (e1 != e0) vh::viol(key_kind + ":decision-on-uninitialised-data", ts + detail + ": memcheck reported " + std::to_string(e1 - e0) + " error(s) during this load");
#endif
}

inline std::vector<size_t> find_words(const std::string & d, uint32_t w)
{
    std::vector<size_t> r;
    for (size_t p = 0; p + 4 <= d.size(); ++p) {
        uint32_t x;
        std::memcpy(&x, d.data() + p, 4);
        if (x == w) r.push_back(p);
    }
    return r;
}

// ------------------------------------------------------------------ C08, single-stack faults
template <class Z>
inline void drive_c08()
{
    if (!vh::selected(Z::name())) return;
    vh::Rng rng(vh::st().seed * 2860486313ull + vh::fnv(Z::name()));
    typename Z::field_t f = Z::make();
    Z::fill(f);
    const std::string d = dump<Z>(f);
    vh::stat("dumps");
    vh::stat("dump_bytes", d.size());
    const bool th = vh::st().thorough;
    {
        // control: the undamaged stream loads
        FaultyBuf fb(d);
        std::string what;
        if (offer<Z>(fb, false, what) != RETURNED_FIELD) {
            vh::viol("control:undamaged-dump-rejected", std::string(Z::type_string()) + ": " + what);
            return;
        }
    }
    // (1) every proper prefix (complete for dumps up to the cap, otherwise all of the first and last 600 bytes + a stride)
    const size_t cap = th ? 6000 : 1500;
    for (size_t n = 0; n < d.size(); ++n) {
        if (d.size() > cap && n > 600 && n + 600 < d.size() && n % 13 != 0) continue;
        FaultyBuf fb(d.substr(0, n));
        one_fault<Z>("truncated", "prefix of " + std::to_string(n) + "/" + std::to_string(d.size()) + " bytes", fb, false, n);
        // the same prefix on a stream whose exception mask is set (three masks in rotation)
        static const std::ios::iostate masks[3] = {std::ios::failbit | std::ios::badbit, std::ios::badbit | std::ios::eofbit, std::ios::failbit | std::ios::badbit | std::ios::eofbit};
        FaultyBuf fm(d.substr(0, n));
        one_fault<Z>("truncated-exceptions-mask", "prefix of " + std::to_string(n) + "/" + std::to_string(d.size()) + " bytes, stream.exceptions(mask #" + std::to_string(n % 3) + ")", fm, false, n, masks[n % 3]);
    }
    {
        // control: a complete dump loads from a stream with an exception mask, too
        FaultyBuf fb(d);
        std::string what;
        if (offer<Z>(fb, false, what, std::ios::failbit | std::ios::badbit) != RETURNED_FIELD) vh::viol("control:undamaged-dump-rejected-with-exception-mask", std::string(Z::type_string()) + ": " + what);
    }
    if (d.size() <= cap) vh::stat("dumps_with_complete_prefix_enumeration");
    // (2) header / footer / tag / width words
    const uint32_t MH = 0xC04F1EAB, MF = 0xC04F1E70;
    std::vector<size_t> heads = find_words(d, MH), foots = find_words(d, MF);
    std::vector<std::pair<size_t, const char *>> words;
    for (size_t p : heads) {
        words.push_back({p, "header-magic"});
        words.push_back({p + 4, "header-tag"});
        uint32_t tag;
        std::memcpy(&tag, d.data() + p + 4, 4);
        if (tag == 0xAB010000u) words.push_back({p + 8, "float-width"});
    }
    for (size_t p : foots) {
        words.push_back({p, "footer-magic"});
        words.push_back({p + 4, "footer-tag"});
    }
    for (auto & wp : words) {
        if (wp.first + 4 > d.size()) continue;
        uint32_t orig;
        std::memcpy(&orig, d.data() + wp.first, 4);
        std::vector<uint32_t> repl = {0u, orig + 0x20000000u, orig - 0x20000000u, MH, MF, (uint32_t)rng.next(), 0xAB010000u, 0xAB020010u, 0xAB020006u, 0xAB020002u,
                                      0xAB110000u /* the CUDA array's tag */, orig ^ 0x00110000u, orig ^ 0xffffffffu};
        for (unsigned bit = 0; bit < 32; ++bit) repl.push_back(orig ^ (1u << bit));  // all 32 single-bit flips
        if (!std::strcmp(wp.second, "float-width")) {
            repl = {0u, 1u, 2u, 3u, 5u, 6u, 7u, 9u, 16u, 0x04000000u, 0x08000000u, 0xffffffffu, orig == 4 ? 8u : 4u, (uint32_t)rng.next()};
            for (unsigned bit = 0; bit < 32; ++bit) repl.push_back(orig ^ (1u << bit));
        }
        // a neighbouring layer's tag
        if (heads.size() > 1 && std::strstr(wp.second, "tag")) {
            size_t other = heads[rng.below(heads.size())];
            uint32_t t;
            std::memcpy(&t, d.data() + other + 4, 4);
            repl.push_back(t);
            repl.push_back(t + 0x20000000u);
        }
        for (uint32_t v : repl) {
            if (v == orig) continue;
            std::string dd = d;
            std::memcpy(&dd[wp.first], &v, 4);
            FaultyBuf fb(dd);
            char det[120];
            std::snprintf(det, sizeof det, "%s at byte %zu: 0x%08X -> 0x%08X", wp.second, wp.first, orig, v);
            one_fault<Z>(std::string("corrupted-") + wp.second, det, fb, false, vh::mix(wp.first, v));
        }
    }
    // (3) streams that start failing at the n-th read call, EOF-style and throwing; and an already-failed stream
    {
        FaultyBuf probe(d);
        std::string what;
        offer<Z>(probe, false, what);
        long ncalls = probe.calls;
        vh::stat("read_calls_of_full_load", (uint64_t)ncalls);
        long stride = (!th && ncalls > 400) ? ncalls / 400 + 1 : 1;
        for (long n = 0; n < ncalls; n += (n < 64 ? 1 : stride)) {
            for (int thr = 0; thr < 2; ++thr) {
                FaultyBuf fb(d);
                fb.fail_call = n;
                fb.throwing = thr;
                one_fault<Z>(thr ? "stream-throws" : "stream-fails", "from read call " + std::to_string(n) + " of " + std::to_string(ncalls), fb, false, (uint64_t)n * 2 + thr);
            }
            FaultyBuf fm(d);
            fm.fail_call = n;
            one_fault<Z>("stream-fails-exceptions-mask", "from read call " + std::to_string(n) + " of " + std::to_string(ncalls) + ", stream.exceptions(failbit|badbit)", fm, false, (uint64_t)n, std::ios::failbit | std::ios::badbit);
        }
        FaultyBuf fb(d);
        one_fault<Z>("stream-already-failed", "failbit set before loading", fb, true, 0);
    }
    vh::sample("faults", std::string(Z::type_string()) + " dump=" + std::to_string(d.size()) + "B: prefixes, " + std::to_string(words.size()) + " magic/tag/width words, failing-read injections", 3);
}

// ------------------------------------------------------------------ C08, incompatible stack pairs
// Za's dump offered to Zb's loader; the generator only pairs stacks whose on-disk signatures differ
template <class Za, class Zb>
inline void drive_c08_pair()
{
    typename Za::field_t f = Za::make();
    Za::fill(f);
    const std::string d = dump<Za>(f);
    vh::set_case("dump of %s offered to %s", Za::name(), Zb::name());
    FaultyBuf fb(d);
    std::istream is(&fb);
    vh::ev();
    vh::nontrivial(vh::fnv(Zb::name(), vh::fnv(Za::name())));
    vh::stat("faults:incompatible-stack");
    const std::string det = std::string("dump of ") + Za::type_string() + " offered to " + Zb::type_string();
    try {
        typename Zb::field_t g(is);
        vh::viol("incompatible-stack:accepted", det);
    } catch (const std::exception &) {
    } catch (...) {
        vh::viol("incompatible-stack:non-std-exception", det);
    }
    vh::sample("incompatible", det, 2);
}

// ------------------------------------------------------------------ C07
// nearest representable float of d, ties to even -- by definition, not by a second static_cast
inline bool is_correctly_rounded(double d, float f)
{
    if (std::isnan(d)) return std::isnan(f);
    if (std::isinf(d)) return f == (float)d;
    if (std::isinf(f)) {
        // overflow threshold: FLT_MAX + half ulp
        double lim = (double)std::numeric_limits<float>::max() + std::ldexp(1.0, 103);
        return f > 0 ? d >= lim : d <= -lim;
    }
    __float128 err = fabsq((__float128)f - (__float128)d);
    float up = std::nextafter(f, std::numeric_limits<float>::infinity()), dn = std::nextafter(f, -std::numeric_limits<float>::infinity());
    __float128 eu = std::isinf(up) ? err + 1 : fabsq((__float128)up - (__float128)d), ed = std::isinf(dn) ? err + 1 : fabsq((__float128)dn - (__float128)d);
    if (eu < err || ed < err) return false;
    if (eu == err || ed == err) {
        uint32_t bits;
        std::memcpy(&bits, &f, 4);
        return (bits & 1u) == 0;  // tie: even significand
    }
    return true;
}

template <typename S>
inline S c07_value(vh::Rng & rng, bool & needs_rounding)
{
    needs_rounding = false;
    if constexpr (sizeof(S) == 4) {
        if (rng.below(12) == 0) return rng.coin() ? -0.0f : 0.0f;   // signed zeros: the sign survives widening
        switch (rng.below(5)) {
        case 0: return (float)rng.range(-100, 100);
        case 1: return std::ldexp(1.0f + (float)rng.unit(), (int)rng.range(-140, 120)) * (rng.coin() ? 1.f : -1.f);
        case 2: return std::numeric_limits<float>::denorm_min() * (float)(1 + rng.below(1000));
        case 3: return std::nextafter(std::numeric_limits<float>::max(), 0.f) * (rng.coin() ? 1.f : -1.f);
        default: return (float)(rng.unit() * 2 - 1);
        }
    } else {
        needs_rounding = true;
        if (rng.below(12) == 0) {
            // signed zeros, and values far below the float subnormal range: they round to a zero of the SAME sign
            switch (rng.below(3)) {
            case 0: needs_rounding = false; return rng.coin() ? -0.0 : 0.0;
            case 1: return -std::ldexp(1.0 + rng.unit(), (int)rng.range(-1000, -160));
            default: return std::ldexp(1.0 + rng.unit(), (int)rng.range(-1000, -160));
            }
        }
        switch (rng.below(7)) {
        case 0: needs_rounding = false; return (double)rng.range(-100, 100);
        case 1: return std::ldexp(1.0 + rng.unit(), (int)rng.range(-120, 120)) * (rng.coin() ? 1 : -1);
        case 2: {
            // exact tie between two floats, odd or even lower neighbour
            float a = std::ldexp(1.0f + (float)rng.unit(), (int)rng.range(-60, 60));
            float b = std::nextafter(a, std::numeric_limits<float>::infinity());
            return ((double)a + (double)b) / 2 * (rng.coin() ? 1 : -1);
        }
        case 3: {
            // just off a tie
            float a = std::ldexp(1.0f + (float)rng.unit(), (int)rng.range(-60, 60));
            float b = std::nextafter(a, std::numeric_limits<float>::infinity());
            double t = ((double)a + (double)b) / 2;
            return std::nextafter(t, rng.coin() ? 1e300 : -1e300);
        }
        case 4: return std::ldexp(1.0 + rng.unit(), (int)rng.range(-150, -126));            // float subnormal range
        case 5: return (double)std::numeric_limits<float>::max() * (1.0 - rng.unit() * 1e-9) * (rng.coin() ? 1 : -1);  // just inside +-FLT_MAX
        default: return rng.unit() * 2 - 1;
        }
    }
}

// writer Za, reader Zb: same layers up to interpolation method and storage precision
template <class Za, class Zb>
inline void drive_c07_pair()
{
    static_assert(Za::has_array == Zb::has_array);
    vh::Rng rng(vh::st().seed * 982451653ull + vh::fnv(Za::name()) + 3 * vh::fnv(Zb::name()));
    const std::string det = std::string("file of ") + Za::type_string() + " loaded as " + Zb::type_string();
    unsigned rounds = vh::st().thorough ? 5 : 2;
    for (unsigned r = 0; r < rounds; ++r) {
        vh::set_case("%s round %u", det.c_str(), r);
        typename Za::field_t f = Za::make();
        bool any_round = false;
        if constexpr (Za::has_array) {
            typename Za::array_t::non_owning_data_t v(Za::storage(f));
            using S = std::decay_t<decltype(v.at(0)[0])>;
            for (uint64_t i = 0; i < Za::array_len; ++i)
                for (uint64_t j = 0; j < Za::array_m; ++j) {
                    bool nr;
                    v.at(i)[j] = c07_value<S>(rng, nr);
                    any_round = any_round || nr;
                }
        }
        std::string d1 = dump<Za>(f);
        std::istringstream is(d1, std::ios::binary);
        vh::ev();
        try {
            typename Zb::field_t g(is);
            int bad = Zb::config_mismatch(g);
            if (bad >= 0) vh::viol("cross-load:configuration", det + ": layer " + std::to_string(bad) + " changed");
            if constexpr (Za::has_array) {
                typename Za::array_t::non_owning_data_t va(Za::storage(f));
                typename Zb::array_t::non_owning_data_t vb(Zb::storage(g));
                using SA = std::decay_t<decltype(va.at(0)[0])>;
                using SB = std::decay_t<decltype(vb.at(0)[0])>;
                if (Zb::storage(g).get_configuration()[0] != Za::array_len) vh::viol("cross-load:length", det);
                for (uint64_t i = 0; i < Za::array_len && i < Zb::storage(g).get_configuration()[0]; ++i)
                    for (uint64_t j = 0; j < Za::array_m; ++j) {
                        SA a = va.at(i)[j];
                        SB b = vb.at(i)[j];
                        bool ok;
                        if constexpr (sizeof(SB) >= sizeof(SA))
                            ok = (double)a == (double)b;  // widening (or same width) preserves the value exactly
                        else
                            ok = is_correctly_rounded((double)a, (float)b);
                        // neither an exact conversion nor rounding to nearest changes the sign (signed zeros included)
                        if (!std::isnan((double)a) && std::signbit((double)a) != std::signbit((double)b)) ok = false;
                        if (!ok) {
                            char buf[200];
                            std::snprintf(buf, sizeof buf, ": cell %llu component %llu stored %a loaded %a", (unsigned long long)i, (unsigned long long)j, (double)a, (double)b);
                            vh::viol(sizeof(SB) >= sizeof(SA) ? "cross-load:widening-changed-value" : "cross-load:not-rounded-to-nearest", det + buf);
                            i = Za::array_len;
                            break;
                        }
                    }
                constexpr bool narrowing = sizeof(SB) < sizeof(SA);
                if ((narrowing && any_round) || !std::is_same_v<Za, Zb>) vh::nontrivial(vh::mix(vh::fnv(Zb::name(), vh::fnv(Za::name())), r));
            } else {
                vh::nontrivial(vh::mix(vh::fnv(Zb::name(), vh::fnv(Za::name())), r));
            }
            // re-dump from the reader must itself follow the grammar and reload
            if (r == 0) std::printf("@DUMP %s\t%s\n", Zb::name(), hex(dump<Zb>(g)).c_str());
        } catch (const std::exception & e) {
            vh::viol("cross-load:rejected", det + ": " + e.what());
        }
    }
    vh::stat("cross_type_pairs");
    vh::sample("cross-load", det, 3);
}
}  // namespace zio

// ------------------------------------------------------------------ C07, golden files of the pinned revision
#include <fstream>
namespace zio {
template <class Z>
inline void drive_golden(const char * path)
{
    const std::string ts = std::string(Z::type_string()) + " [" + Z::name() + "] golden " + path;
    vh::set_case("%s", ts.c_str());
    std::ifstream in(path, std::ios::binary);
    std::string bytes((std::istreambuf_iterator<char>(in)), std::istreambuf_iterator<char>());
    if (bytes.empty()) {
        vh::viol("golden:missing", ts);
        return;
    }
    vh::ev();
    vh::nontrivial(vh::fnv(Z::name()));
    try {
        std::istringstream is(bytes, std::ios::binary);
        typename Z::field_t g(is);
        int bad = Z::config_mismatch(g);
        if (bad >= 0) vh::viol("golden:configuration", ts + ": layer " + std::to_string(bad) + " loads to a different configuration");
        typename Z::field_t f = Z::make();
        Z::fill(f);
        std::string w = storage_differs<Z>(f, g);
        if (!w.empty()) vh::viol("golden:values", ts + ": " + w);
        {
            // ... and the loaded field answers lookups through the whole stack like the reference interpreter does
            // (the storage comparison above is flat: it cannot see a reader that maps coordinates to other cells
            // than the writer did, e.g. a build-flag dependent index path)
            // (goldens whose view state exceeds the library's 256-byte limit can be dumped and loaded but not viewed)
            if constexpr (sizeof(typename Z::backend_t::non_owning_data_t) <= 256) {
                model::P m = Z::make_model();
                vh::Rng rng(vh::st().seed * 7368787 + vh::fnv(Z::name()));
                unsigned hits = zoo::compare_with_model<Z>(g, *m, rng, 300, "golden:lookup", "loaded from the pinned revision's file");
                vh::stat("golden_in_domain_lookups", hits);
                vh::stat("goldens_looked_up");
            }
        }
        std::string again = dump<Z>(g);
        if (again != bytes) {
            size_t p = 0;
            while (p < again.size() && p < bytes.size() && again[p] == bytes[p]) ++p;
            vh::viol("golden:redump-differs", ts + ": re-dump differs from the pinned revision's bytes at offset " + std::to_string(p));
        }
        std::string fresh = dump<Z>(f);
        if (fresh != bytes) vh::viol("golden:writer-changed", ts + ": a field built today dumps to other bytes than the pinned revision wrote");
    } catch (const std::exception & e) {
        vh::viol("golden:rejected", ts + ": " + e.what());
    }
    vh::stat("goldens");
    vh::sample("golden", ts + " bytes=" + std::to_string(bytes.size()), 3);
}
}  // namespace zio
