// refs.hpp -- reference models for the storage orders.  Independent of covfie.
#pragma once
#include <cstddef>
#include <cstdint>
#include <vector>

namespace ref {
typedef unsigned __int128 u128;

// least power of two >= i (i >= 1), by counting, not by doubling
inline u128 bit_ceil128(u128 i)
{
    if (i <= 1) return 1;
    u128 v = i - 1;
    int bits = 0;
    while (v) {
        ++bits;
        v >>= 1;
    }
    return (u128)1 << bits;
}

// b^e mod 2^w, left-to-right binary exponentiation (covfie uses right-to-left)
inline uint64_t powmod(uint64_t b, uint64_t e, unsigned w)
{
    u128 mask = w >= 64 ? (u128)~(uint64_t)0 : (((u128)1 << w) - 1);
    u128 r = 1;
    for (int bit = 63; bit >= 0; --bit) {
        r = (r * r) & mask;
        if ((e >> bit) & 1) r = (r * (b & mask)) & mask;
    }
    return (uint64_t)r;
}

// row-major: sum_k c_k * prod_{l>k} N_l
template <typename C, typename E>
inline u128 rowmajor(const C & c, const E & ext, size_t n)
{
    u128 idx = 0;
    for (size_t k = 0; k < n; ++k) {
        u128 t = (u128)(uint64_t)c[k];
        for (size_t l = k + 1; l < n; ++l) t *= (u128)(uint64_t)ext[l];
        idx += t;
    }
    return idx;
}

// Morton: bit b of coordinate j lands at bit b*n + j (first coordinate least significant)
template <typename C>
inline u128 morton(const C & c, size_t n)
{
    u128 idx = 0;
    for (size_t j = 0; j < n; ++j) {
        uint64_t v = (uint64_t)c[j];
        for (unsigned b = 0; b < 64; ++b) {
            if ((v >> b) & 1) {
                unsigned pos = b * (unsigned)n + (unsigned)j;
                if (pos < 128) idx |= (u128)1 << pos;
            }
        }
    }
    return idx;
}

// Hilbert, inverse direction (d -> x,y) on an n x n square, n a power of two.
inline void hilbert_d2xy(uint64_t n, uint64_t d, uint64_t & x, uint64_t & y)
{
    uint64_t t = d;
    x = y = 0;
    for (uint64_t s = 1; s < n; s *= 2) {
        uint64_t rx = 1 & (t / 2);
        uint64_t ry = 1 & (t ^ rx);
        if (ry == 0) {
            if (rx == 1) {
                x = s - 1 - x;
                y = s - 1 - y;
            }
            uint64_t tmp = x;
            x = y;
            y = tmp;
        }
        x += s * rx;
        y += s * ry;
        t /= 4;
    }
}
}  // namespace ref
