// C18: round_pow2 / ipow exactness at several widths; curve storage large enough.
#include <bit>
#include <cstdint>
#include <limits>
#include <sstream>
#include <vector>

#include <covfie/core/backend/primitive/array.hpp>
#include <covfie/core/backend/transformer/strided.hpp>
#include <covfie/core/field.hpp>
#include <covfie/core/field_view.hpp>
#include <covfie/core/utility/numeric.hpp>
#if defined(SH_SIZING_MORTON)
#include <covfie/core/backend/transformer/morton.hpp>
#endif
#if defined(SH_SIZING_HILBERT)
#include <covfie/core/backend/transformer/hilbert.hpp>
#endif

#include "refs.hpp"
#include "vh.hpp"

namespace cu = covfie::utility;

template <typename T>
static void check_round(uint64_t i)
{
    constexpr unsigned w = sizeof(T) * 8;
    T got = cu::round_pow2<T>((T)i);
    uint64_t want = (uint64_t)ref::bit_ceil128(i);
    vh::ev();
    if ((i & (i - 1)) != 0) {
        vh::nontrivial(vh::mix(vh::mix(7, w), i));
        if (i > 100) vh::sample(std::string("round_pow2<") + vh::tn<T>() + ">", "i=" + std::to_string(i) + " -> " + std::to_string((uint64_t)got), 1);
    }
    if ((uint64_t)got != want) {
        vh::viol(std::string("round_pow2<") + vh::tn<T>() + ">",
                 "i=" + std::to_string(i) + " got=" + std::to_string((uint64_t)got) + " want=" + std::to_string(want));
    }
}

template <typename T>
static void check_pow(uint64_t b, uint64_t e)
{
    constexpr unsigned w = sizeof(T) * 8;
    T got = cu::ipow<T>((T)b, (T)e);
    uint64_t want = ref::powmod(b, e, w);
    vh::ev();
    if (e >= 2 && b >= 2) {
        vh::nontrivial(vh::mix(vh::mix(vh::mix(11, w), b), e));
        if (b > 2 && e > 5) vh::sample(std::string("ipow<") + vh::tn<T>() + ">", "b=" + std::to_string(b) + " e=" + std::to_string(e) + " -> " + std::to_string((uint64_t)got), 1);
    }
    if ((uint64_t)got != want) {
        vh::viol(std::string("ipow<") + vh::tn<T>() + ">",
                 "b=" + std::to_string(b) + " e=" + std::to_string(e) + " got=" + std::to_string((uint64_t)got) +
                     " want=" + std::to_string(want));
    }
}

#if defined(SH_NUMERIC)
static void numeric(vh::Rng & rng, bool thorough)
{
    // 8 bit: everything
    vh::set_case("round_pow2<uint8> all");
    for (uint64_t i = 1; i <= 128; ++i) check_round<uint8_t>(i);
    vh::set_case("ipow<uint8> all pairs");
    for (uint64_t b = 0; b < 256; ++b) {
        for (uint64_t e = 0; e < 256; ++e) {
            check_pow<uint8_t>(b, e);
            // second, independent oracle at 8 bits: plain repeated multiplication
            unsigned r = 1;
            for (uint64_t k = 0; k < e; ++k) r = (r * (unsigned)b) & 0xffu;
            if (cu::ipow<uint8_t>((uint8_t)b, (uint8_t)e) != (uint8_t)r)
                vh::viol("ipow<uint8>:repeated-mult", "b=" + std::to_string(b) + " e=" + std::to_string(e));
        }
    }
    // 16 bit
    vh::set_case("round_pow2<uint16> all");
    for (uint64_t i = 1; i <= 32768; ++i) check_round<uint16_t>(i);
    vh::set_case("ipow<uint16> rows/cols");
    {
        uint64_t es[64], bs[64];
        for (int k = 0; k < 64; ++k) {
            es[k] = k < 20 ? (uint64_t)k : rng.below(65536);
            bs[k] = k < 20 ? (uint64_t)k : rng.below(65536);
        }
        bs[20] = 65535, bs[21] = 65534, bs[22] = 32768, bs[23] = 32767, bs[24] = 255, bs[25] = 256, bs[26] = 257;
        es[20] = 65535, es[21] = 65534, es[22] = 32768, es[23] = 32767, es[24] = 255, es[25] = 256, es[26] = 257;
        for (uint64_t b = 0; b < 65536; ++b)
            for (int k = 0; k < 64; ++k) check_pow<uint16_t>(b, es[k]);
        for (uint64_t e = 0; e < 65536; ++e)
            for (int k = 0; k < 64; ++k) check_pow<uint16_t>(bs[k], e);
    }
    // 32 / 64 bit: boundaries + random
    vh::set_case("round_pow2<uint32/64> boundaries");
    for (unsigned k = 0; k <= 31; ++k) {
        uint64_t p = 1ull << k;
        for (int d = -2; d <= 2; ++d) {
            uint64_t i = p + d;
            if (i >= 1 && i <= (1ull << 31)) check_round<uint32_t>(i);
        }
    }
    for (unsigned k = 0; k <= 63; ++k) {
        uint64_t p = 1ull << k;
        for (int d = -2; d <= 2; ++d) {
            uint64_t i = p + (uint64_t)(int64_t)d;
            if (i >= 1 && i <= (1ull << 63)) {
                check_round<uint64_t>(i);
                check_round<unsigned long>(i);
            }
        }
    }
    uint64_t nrand = thorough ? 4000000 : 1000000;
    vh::set_case("round_pow2 random");
    for (uint64_t n = 0; n < nrand; ++n) {
        // log-uniform so every magnitude is hit
        unsigned k32 = (unsigned)rng.below(32), k64 = (unsigned)rng.below(64);
        uint64_t i32 = (rng.next() & ((2ull << k32) - 1));
        uint64_t i64 = (rng.next() & (k64 == 63 ? ~0ull : ((2ull << k64) - 1)));
        if (i32 >= 1 && i32 <= (1ull << 31)) check_round<uint32_t>(i32);
        if (i64 >= 1 && i64 <= (1ull << 63)) check_round<uint64_t>(i64);
    }
    vh::set_case("ipow<uint32/64>");
    const uint64_t edge[] = {0, 1, 2, 3, 4, 5, 7, 8, 15, 16, 31, 32, 33, 63, 64, 65, 127, 255, 256, 65535, 65536, 65537,
                             0x7fffffffull, 0x80000000ull, 0xffffffffull, 0x100000000ull, 0x7fffffffffffffffull,
                             0x8000000000000000ull, 0xffffffffffffffffull};
    for (uint64_t b : edge)
        for (uint64_t e : edge) {
            check_pow<uint32_t>(b & 0xffffffffull, e & 0xffffffffull);
            check_pow<uint64_t>(b, e);
        }
    for (uint64_t n = 0; n < nrand; ++n) {
        uint64_t b = rng.next() >> rng.below(64), e = rng.next() >> rng.below(64);
        check_pow<uint64_t>(b, e);
        check_pow<uint32_t>(b & 0xffffffffull, e & 0xffffffffull);
        check_pow<uint64_t>(b & 0xff, e & 0x3f);  // small, non-wrapping region too
    }
}

// thorough: every 32-bit i in 1..2^31, partitioned
static void all32(unsigned part, unsigned parts)
{
    uint64_t lo = 1 + ((1ull << 31) / parts) * part;
    uint64_t hi = part + 1 == parts ? (1ull << 31) : ((1ull << 31) / parts) * (part + 1);
    vh::set_case("round_pow2<uint32> exhaustive part %u/%u", part, parts);
    uint64_t bad = 0, nt = 0;
    for (uint64_t i = lo; i <= hi; ++i) {
        uint32_t got = cu::round_pow2<uint32_t>((uint32_t)i);
        uint32_t want = std::bit_ceil((uint32_t)i);
        nt += (i & (i - 1)) != 0;
        if (got != want && bad++ < 3)
            vh::viol("round_pow2<uint32>", "i=" + std::to_string(i) + " got=" + std::to_string(got) + " want=" + std::to_string(want));
    }
    vh::ev(hi - lo + 1);
    vh::stat("round32_exhaustive_inputs", hi - lo + 1);
    vh::stat("round32_exhaustive_nonpow2", nt);
}
#endif

#if defined(SH_SIZING_MORTON) || defined(SH_SIZING_HILBERT)
namespace cb = covfie::backend;
namespace cv = covfie::vector;

template <std::size_t N>
struct ext_enum {
    // all extent vectors with entries in 1..B
    template <typename F>
    static void run(std::size_t B, F f)
    {
        covfie::utility::nd_size<N> e;
        for (std::size_t k = 0; k < N; ++k) e[k] = 1;
        for (;;) {
            f(e);
            std::size_t k = 0;
            while (k < N && ++e[k] > B) {
                e[k] = 1;
                ++k;
            }
            if (k == N) break;
        }
    }
};

template <std::size_t N, bool bmi2>
static void sizing_morton(std::size_t B)
{
#if defined(SH_SIZING_MORTON)
    using idx_t = cv::vector_d<std::size_t, N>;
    using src_t = covfie::field<cb::strided<idx_t, cb::array<cv::float1>>>;
    using dst_t = covfie::field<cb::morton<idx_t, cb::array<cv::float1>, bmi2>>;
    std::string name = std::string("sizing:morton<N=") + std::to_string(N) + (bmi2 ? ",bmi2>" : ",portable>");
    if (!vh::selected(name)) return;
    ext_enum<N>::run(B, [&](covfie::utility::nd_size<N> e) {
        vh::set_case("%s extents=%s", name.c_str(), vh::jarr(e, N).c_str());
        src_t src(covfie::make_parameter_pack(typename src_t::backend_t::configuration_t(e)));
        dst_t dst(src);
        std::size_t len = dst.backend().get_backend().get_configuration()[0];
        // largest curve position of an in-range coordinate: the corner (e-1)
        std::size_t c[N];
        for (std::size_t k = 0; k < N; ++k) c[k] = e[k] - 1;
        ref::u128 maxpos = ref::morton(c, N);
        // (interleave is monotone per coordinate, so the corner is the maximum; checked for small boxes)
        vh::ev();
        bool cube = true, p2 = true;
        for (std::size_t k = 0; k < N; ++k) {
            cube = cube && e[k] == e[0];
            p2 = p2 && (e[k] & (e[k] - 1)) == 0;
        }
        if (!cube || !p2) vh::nontrivial(vh::fnv(name, vh::fnv(&e, sizeof e)));
        if (!((ref::u128)len > maxpos))
            vh::viol(name, "extents=" + vh::jarr(e, N) + " storage=" + std::to_string(len) + " max_position=" + std::to_string((uint64_t)maxpos));
        if (!cube && !p2) vh::sample(name, "extents=" + vh::jarr(e, N) + " storage=" + std::to_string(len) + " max_position=" + std::to_string((uint64_t)maxpos), 1);
    });
#endif
}

template <int O, typename IDX, typename ARR>
struct narrow_curve;
#if defined(SH_SIZING_MORTON)
template <typename IDX, typename ARR>
struct narrow_curve<0, IDX, ARR> {
    using type = cb::morton<IDX, ARR, true>;
};
template <typename IDX, typename ARR>
struct narrow_curve<1, IDX, ARR> {
    using type = cb::morton<IDX, ARR, false>;
};
#endif
#if defined(SH_SIZING_HILBERT)
template <typename IDX, typename ARR>
struct narrow_curve<2, IDX, ARR> {
    using type = cb::hilbert<IDX, ARR>;
};
#endif

// The same with storage whose ARRAY INDEX TYPE is narrow and the padded curve fills its whole range: the cell COUNT
// (2^bits) is then one more than the index type can hold, while every position (<= 2^bits - 1) fits.  O: 0 morton<bmi2>,
// 1 morton<portable>, 2 hilbert.
template <int O, std::size_t N, typename AI>
static void sizing_narrow(const std::vector<covfie::utility::nd_size<N>> & list)
{
    using idx_t = cv::vector_d<std::size_t, N>;
    using arr_t = cb::array<cv::float1, AI>;
    using src_t = covfie::field<cb::strided<idx_t, arr_t>>;
    using curve_t = typename narrow_curve<O, idx_t, arr_t>::type;
    using dst_t = covfie::field<curve_t>;
    std::string name = std::string("sizing:") + (O == 0 ? "morton<bmi2>" : O == 1 ? "morton<portable>" : "hilbert") + ",N=" + std::to_string(N) + ",array index=" + vh::tn<AI>();
    if (!vh::selected(name)) return;
    for (const auto & e : list) {
        vh::set_case("%s extents=%s", name.c_str(), vh::jarr(e, N).c_str());
        uint64_t cells = 1, mx = 0;
        for (std::size_t k = 0; k < N; ++k) {
            cells *= e[k];
            mx = e[k] > mx ? e[k] : mx;
        }
        src_t src(covfie::make_parameter_pack(typename src_t::backend_t::configuration_t(e)));
        {
            typename src_t::view_t v(src);
            uint64_t c[N] = {};
            for (uint64_t id = 1;; ++id) {
                typename src_t::coordinate_t cc;
                for (std::size_t k = 0; k < N; ++k) cc[k] = c[k];
                v.at(cc)[0] = (float)id;
                std::size_t k = 0;
                while (k < N && ++c[k] >= e[k]) c[k++] = 0;
                if (k == N) break;
            }
        }
        dst_t dst(src);
        const uint64_t len = dst.backend().get_backend().get_configuration()[0];
        uint64_t side = (uint64_t)ref::bit_ceil128(mx), want = 1;
        for (std::size_t k = 0; k < N; ++k) want *= side;
        vh::ev();
        vh::nontrivial(vh::fnv(name, vh::fnv(&e, sizeof e)));
        // the largest position of an in-range coordinate is below `want` for both curves (C14 pins the positions); the
        // storage must report at least that many cells, and a copy and a reload of the converted field must hold them all
        if (len < want && len < cells) vh::viol(name, "extents=" + vh::jarr(e, N) + ": converted field reports " + std::to_string(len) + " cells of storage for " + std::to_string(cells) + " lattice cells");
        auto all_there = [&](const dst_t & f, const char * what) {
            typename dst_t::view_t v(f);
            uint64_t c[N] = {};
            for (uint64_t id = 1;; ++id) {
                typename dst_t::coordinate_t cc;
                for (std::size_t k = 0; k < N; ++k) cc[k] = c[k];
                vh::ev();
                if (v.at(cc)[0] != (float)id) {
                    vh::viol(name + ":" + what, "extents=" + vh::jarr(e, N) + " cell " + vh::jarr(c, N) + " differs in the " + what);
                    return;
                }
                std::size_t k = 0;
                while (k < N && ++c[k] >= e[k]) c[k++] = 0;
                if (k == N) break;
            }
        };
        all_there(dst, "converted field");
        dst_t cp(dst);
        all_there(cp, "copy of the converted field");
        std::stringstream ss(std::ios::in | std::ios::out | std::ios::binary);
        dst.dump(ss);
        dst_t rl(static_cast<std::istream &>(ss));
        all_there(rl, "reloaded converted field");
        vh::sample(name, "extents=" + vh::jarr(e, N) + " storage=" + std::to_string(len) + " index range=" + std::to_string((uint64_t)std::numeric_limits<AI>::max() + 1), 1);
    }
}

static void sizing_hilbert(std::size_t B)
{
#if defined(SH_SIZING_HILBERT)
    using idx_t = cv::size2;
    using src_t = covfie::field<cb::strided<idx_t, cb::array<cv::float1>>>;
    using dst_t = covfie::field<cb::hilbert<idx_t, cb::array<cv::float1>>>;
    std::string name = "sizing:hilbert";
    ext_enum<2>::run(B, [&](covfie::utility::nd_size<2> e) {
        vh::set_case("%s extents=%s", name.c_str(), vh::jarr(e, 2).c_str());
        src_t src(covfie::make_parameter_pack(typename src_t::backend_t::configuration_t(e)));
        dst_t dst(src);
        std::size_t len = dst.backend().get_backend().get_configuration()[0];
        uint64_t side = (uint64_t)ref::bit_ceil128(e[0] > e[1] ? e[0] : e[1]);
        uint64_t maxpos = 0;
        for (uint64_t d = 0; d < side * side; ++d) {
            uint64_t x, y;
            ref::hilbert_d2xy(side, d, x, y);
            if (x < e[0] && y < e[1]) maxpos = d;
        }
        vh::ev();
        if (e[0] != e[1] || (e[0] & (e[0] - 1))) vh::nontrivial(vh::fnv(name, vh::fnv(&e, sizeof e)));
        if (!(len > maxpos))
            vh::viol(name, "extents=" + vh::jarr(e, 2) + " storage=" + std::to_string(len) + " max_position=" + std::to_string(maxpos));
        if (e[0] != e[1] && (e[0] & (e[0] - 1))) vh::sample(name, "extents=" + vh::jarr(e, 2) + " storage=" + std::to_string(len) + " max_position=" + std::to_string(maxpos), 1);
    });
#endif
}
#endif

int main(int argc, char ** argv)
{
    vh::init(argc, argv);
    bool th = vh::st().thorough;
    vh::Rng rng(vh::st().seed * 1000003ull + 18);
    (void)rng;
#if defined(SH_NUMERIC)
    unsigned part = 0, parts = 0;
    for (int i = 1; i < argc; ++i)
        if (!std::strcmp(argv[i], "--part") && i + 2 < argc) {
            part = (unsigned)std::atoi(argv[i + 1]);
            parts = (unsigned)std::atoi(argv[i + 2]);
        }
    if (parts)
        all32(part, parts);
    else
        numeric(rng, th);
#endif
#if defined(SH_SIZING_MORTON)
    {
        const std::size_t Bq[5] = {0, 64, 12, 6, 4}, Bt[5] = {0, 256, 24, 10, 6};
        const std::size_t * B = th ? Bt : Bq;
        sizing_morton<1, true>(B[1]);
        sizing_morton<2, true>(B[2]);
        sizing_morton<3, true>(B[3]);
        sizing_morton<4, true>(B[4]);
        {
            using E1 = covfie::utility::nd_size<1>;
            using E2 = covfie::utility::nd_size<2>;
            using E4 = covfie::utility::nd_size<4>;
            sizing_narrow<0, 1, std::uint8_t>({E1{129ul}, E1{200ul}, E1{256ul}, E1{128ul}, E1{7ul}});
            sizing_narrow<0, 2, std::uint8_t>({E2{9ul, 9ul}, E2{16ul, 16ul}, E2{3ul, 13ul}, E2{16ul, 1ul}, E2{8ul, 8ul}, E2{5ul, 3ul}});
            sizing_narrow<0, 4, std::uint8_t>({E4{3ul, 4ul, 2ul, 4ul}, E4{4ul, 4ul, 4ul, 4ul}, E4{1ul, 3ul, 1ul, 2ul}});
            sizing_narrow<0, 2, std::uint16_t>({E2{129ul, 3ul}, E2{256ul, 256ul}, E2{2ul, 200ul}, E2{100ul, 128ul}});
            sizing_narrow<0, 4, std::uint16_t>({E4{9ul, 2ul, 3ul, 16ul}, E4{16ul, 16ul, 1ul, 1ul}});
            sizing_narrow<0, 2, std::uint32_t>({E2{300ul, 5ul}, E2{17ul, 33ul}});
#if defined(SH_PORTABLE)
            sizing_narrow<1, 1, std::uint8_t>({E1{129ul}, E1{256ul}, E1{31ul}});
            sizing_narrow<1, 2, std::uint8_t>({E2{9ul, 9ul}, E2{16ul, 16ul}, E2{3ul, 13ul}, E2{8ul, 8ul}});
            sizing_narrow<1, 2, std::uint16_t>({E2{129ul, 3ul}, E2{256ul, 256ul}});
            sizing_narrow<1, 4, std::uint16_t>({E4{9ul, 2ul, 3ul, 16ul}});
#endif
        }
#if defined(SH_PORTABLE)
        sizing_morton<1, false>(B[1]);
        sizing_morton<2, false>(B[2]);
        sizing_morton<3, false>(B[3]);
        sizing_morton<4, false>(B[4]);
#endif
    }
#endif
#if defined(SH_SIZING_HILBERT)
    sizing_hilbert(th ? 40 : 20);
    {
        using E2 = covfie::utility::nd_size<2>;
        sizing_narrow<2, 2, std::uint8_t>({E2{9ul, 9ul}, E2{16ul, 16ul}, E2{3ul, 13ul}, E2{16ul, 1ul}, E2{8ul, 8ul}, E2{3ul, 7ul}, E2{1ul, 9ul}});
        sizing_narrow<2, 2, std::uint16_t>({E2{129ul, 3ul}, E2{256ul, 256ul}, E2{2ul, 200ul}, E2{100ul, 128ul}});
        sizing_narrow<2, 2, std::uint32_t>({E2{300ul, 5ul}, E2{17ul, 33ul}});
    }
#endif
    return vh::finish();
}
