// zoo_api.hpp -- C13: every well-kinded stack supports the whole field API.  Each member is
// compiled AND run; after every ownership operation the resulting field is compared with the
// reference interpreter.  -DAPI_ONLY=<k> restricts the program to one member (used to attribute a
// compile failure to the member that causes it).
#pragma once
#include <cstring>
#include <sstream>
#include <type_traits>

#include "zoo_drivers.hpp"
#include "zoo_io.hpp"

#ifndef API_ONLY
#define API_ONLY -1
#endif

namespace zapi {
enum { OP_CONSTRUCT = 0, OP_VIEW, OP_AT, OP_COPY, OP_MOVE, OP_COPY_ASSIGN, OP_MOVE_ASSIGN, OP_CONFIG, OP_DUMP, OP_LOAD, OP_CONVERT, OP_EXTENTS, OP_COUNT };
static const char * opname[OP_COUNT] = {"construct", "view", "at", "copy", "move", "copy-assign", "move-assign", "configuration", "dump", "load", "convert", "construct-from-extents"};
constexpr bool on(int k)
{
    return API_ONLY < 0 || API_ONLY == k;
}

template <class Z>
inline void check(const typename Z::field_t & f, const model::Node & m, vh::Rng & rng, int op)
{
    vh::stat(std::string("members_run:") + opname[op]);
    zoo::compare_with_model<Z>(f, m, rng, 40, std::string("api:") + opname[op], opname[op]);
}

template <class Z>
inline void op_construct(vh::Rng & rng, const model::Node & m)
{
    typename Z::field_t f = Z::make();
    Z::fill(f);
    check<Z>(f, m, rng, OP_CONSTRUCT);
}
template <class Z>
inline void op_view(vh::Rng & rng, const model::Node & m)
{
    using F = typename Z::field_t;
    using V = typename F::view_t;
    F f = Z::make();
    Z::fill(f);
    vh::ev();
    if (!std::is_trivially_copyable_v<V>) vh::viol("view-not-trivially-copyable", Z::type_string());
    if (sizeof(V) > 256) vh::viol("view-larger-than-256-bytes", Z::type_string());
    V v(f);
    // copies of a view are independent values: a bitwise copy (what a kernel launch does), a copy-constructed and a
    // copy-assigned one must answer like a fresh view AFTER the view they were made from has been zeroed and freed
    V * orig = new V(f);
    alignas(V) unsigned char raw[sizeof(V)];
    std::memcpy(raw, orig, sizeof(V));
    const V & cpy = *reinterpret_cast<const V *>(raw);
    V constructed(*orig);
    V assigned(f);
    assigned = *orig;
    std::memset(static_cast<void *>(orig), 0, sizeof(V));
    delete orig;
    for (int q = 0; q < 60; ++q) {
        model::Vec mc;
        auto c = zoo::propose<F>(rng, mc);
        model::Result r = m.at(mc);
        if (!r.ok) continue;
        typename F::output_t a = v.at(c), b = cpy.at(c), d = constructed.at(c), e = assigned.at(c);
        vh::ev();
        model::Vec ga(zoo::traits<F>::M), gb(zoo::traits<F>::M), gd(zoo::traits<F>::M), ge(zoo::traits<F>::M);
        for (std::size_t j = 0; j < zoo::traits<F>::M; ++j) {
            ga[j] = (model::Q)a[j];
            gb[j] = (model::Q)b[j];
            gd[j] = (model::Q)d[j];
            ge[j] = (model::Q)e[j];
        }
        if (!r.admits(ga) || !r.admits(gb) || !r.admits(gd) || !r.admits(ge)) {
            vh::viol("api:view", std::string(Z::type_string()) + " c=" + zoo::show_q(mc) + (r.admits(ga) ? " (a copy of a view whose original is gone answers differently)" : ""));
            return;
        }
    }
    vh::stat("members_run:view");
}
template <class Z>
inline void op_at(vh::Rng & rng, const model::Node & m)
{
    typename Z::field_t f = Z::make();
    Z::fill(f);
    check<Z>(f, m, rng, OP_AT);
}
template <class Z>
inline void op_copy(vh::Rng & rng, const model::Node & m)
{
    typename Z::field_t f = Z::make();
    Z::fill(f);
    typename Z::field_t g(f);
    check<Z>(g, m, rng, OP_COPY);
    check<Z>(f, m, rng, OP_COPY);
}
template <class Z>
inline void op_move(vh::Rng & rng, const model::Node & m)
{
    typename Z::field_t f = Z::make();
    Z::fill(f);
    typename Z::field_t g(std::move(f));
    check<Z>(g, m, rng, OP_MOVE);
}
template <class Z>
inline void op_copy_assign(vh::Rng & rng, const model::Node & m)
{
    typename Z::field_t f = Z::make();
    Z::fill(f);
    typename Z::field_t a = Z::make();
    a = f;
    check<Z>(a, m, rng, OP_COPY_ASSIGN);
    check<Z>(f, m, rng, OP_COPY_ASSIGN);
    typename Z::field_t & self = a;
    a = self;
    check<Z>(a, m, rng, OP_COPY_ASSIGN);
    // over a field of the same type that held OTHER configuration values in every layer: nothing of the old
    // value may survive the assignment
    typename Z::field_t o = Z::template make_other<>();
    o = f;
    check<Z>(o, m, rng, OP_COPY_ASSIGN);
    check<Z>(f, m, rng, OP_COPY_ASSIGN);
}
template <class Z>
inline void op_move_assign(vh::Rng & rng, const model::Node & m)
{
    typename Z::field_t f = Z::make();
    Z::fill(f);
    typename Z::field_t a = Z::make();
    a = std::move(f);
    check<Z>(a, m, rng, OP_MOVE_ASSIGN);
    typename Z::field_t f2 = Z::make();
    Z::fill(f2);
    typename Z::field_t o = Z::template make_other<>();
    o = std::move(f2);
    check<Z>(o, m, rng, OP_MOVE_ASSIGN);
    // std::swap of two fields of one type with different configurations
    typename Z::field_t p = Z::template make_other<>(), q = Z::make();
    Z::fill(q);
    std::swap(p, q);
    check<Z>(p, m, rng, OP_MOVE_ASSIGN);
}
template <class Z>
inline void op_config(vh::Rng & rng, const model::Node & m)
{
    typename Z::field_t f = Z::make();
    Z::fill(f);
    int bad = Z::config_mismatch(f);
    vh::ev();
    if (bad >= 0) vh::viol("api:configuration", std::string(Z::type_string()) + " layer " + std::to_string(bad));
    typename Z::field_t g = Z::rebuild(f);
    check<Z>(g, m, rng, OP_CONFIG);
}
template <class Z>
inline void op_dump(vh::Rng &, const model::Node &)
{
    typename Z::field_t f = Z::make();
    Z::fill(f);
    std::string d = zio::dump<Z>(f);
    vh::ev();
    if (d.size() < 16) vh::viol("api:dump", std::string(Z::type_string()) + " dump of " + std::to_string(d.size()) + " bytes");
    vh::stat("members_run:dump");
}
template <class Z>
inline void op_load(vh::Rng & rng, const model::Node & m)
{
    typename Z::field_t f = Z::make();
    Z::fill(f);
    std::istringstream is(zio::dump<Z>(f), std::ios::binary);
    typename Z::field_t g(is);
    check<Z>(g, m, rng, OP_LOAD);
}
template <class Z>
inline void op_convert(vh::Rng & rng, const model::Node & m)
{
    if constexpr (Z::has_partner) {
        using P = typename Z::partner;
        typename P::field_t pf = P::make();
        P::fill_like(pf);  // partner holds the same lattice values in its own layout
        typename Z::field_t c(pf);
        check<Z>(c, m, rng, OP_CONVERT);
        typename Z::field_t c2(std::move(pf));
        check<Z>(c2, m, rng, OP_CONVERT);
    }
}

template <class Z>
inline void op_extents(vh::Rng & rng, const model::Node & m)
{
    if constexpr (Z::has_extents_form) {
        // a pack that ends with the row-major layer's extents (the layer sizes its own storage), once as a temporary
        // and once as a named object, the two ways user code writes it
        typename Z::field_t a = Z::template make_from_extents<>();
        Z::fill(a);
        check<Z>(a, m, rng, OP_EXTENTS);
        typename Z::field_t b = Z::template make_from_named_extents<>();
        Z::fill(b);
        check<Z>(b, m, rng, OP_EXTENTS);
    }
}

template <class Z>
inline void drive_c13()
{
    if (!vh::selected(Z::name())) return;
    vh::Rng rng(vh::st().seed * 179424673 + vh::fnv(Z::name()));
    model::P m = Z::make_model();
    vh::set_case("%s api", Z::name());
    if constexpr (on(OP_CONSTRUCT)) op_construct<Z>(rng, *m);
    if constexpr (on(OP_VIEW)) op_view<Z>(rng, *m);
    if constexpr (on(OP_AT)) op_at<Z>(rng, *m);
    if constexpr (on(OP_COPY)) op_copy<Z>(rng, *m);
    if constexpr (on(OP_MOVE)) op_move<Z>(rng, *m);
    if constexpr (on(OP_COPY_ASSIGN)) op_copy_assign<Z>(rng, *m);
    if constexpr (on(OP_MOVE_ASSIGN)) op_move_assign<Z>(rng, *m);
    if constexpr (on(OP_CONFIG)) op_config<Z>(rng, *m);
    if constexpr (on(OP_DUMP)) op_dump<Z>(rng, *m);
    if constexpr (on(OP_LOAD)) op_load<Z>(rng, *m);
    if constexpr (on(OP_CONVERT)) op_convert<Z>(rng, *m);
    if constexpr (on(OP_EXTENTS)) op_extents<Z>(rng, *m);
    vh::stat("stacks");
    if (Z::depth >= 2) vh::nontrivial(vh::fnv(Z::name()));
    vh::sample("api", std::string(Z::type_string()) + ": " + (Z::has_partner ? "11" : "10") + " members compiled and run", 3);
}
}  // namespace zapi

// ------------------------------------------------------------------ C15: one "program" per stack
// construction, lookup, write (array-backed), copy, assignment, IO -- every value read goes into a
// digest that must be identical in every build configuration.
namespace zapi {
template <class Z>
inline void drive_c15()
{
    if (!vh::selected(Z::name())) return;
    using F = typename Z::field_t;
    vh::Rng rng(vh::st().seed * 373587883 + vh::fnv(Z::name()));
    model::P m = Z::make_model();
    uint64_t dig = 1469598103934665603ull;
    auto read_all = [&](const F & f, unsigned n) {
        typename F::view_t v(f);
        unsigned hits = 0;
        for (unsigned q = 0; q < n; ++q) {
            model::Vec mc;
            auto c = zoo::propose<F>(rng, mc);
            model::Result r = m->at(mc);
            if (!r.ok) continue;  // the interpreter's domain filter guarantees in-domain arguments
            ++hits;
            vh::set_case("%s program c=%s", Z::name(), zoo::show_q(mc).c_str());
            typename F::output_t out = v.at(c);
            model::Vec gv(zoo::traits<F>::M);
            for (std::size_t j = 0; j < zoo::traits<F>::M; ++j) {
                auto x = out[j];
                dig = vh::mix(dig, x);
                vh::ev();
                gv[j] = (model::Q)x;
            }
            if (!r.admits(gv)) vh::viol("program:wrong-value", std::string(Z::type_string()) + " c=" + zoo::show_q(mc));
        }
        return hits;
    };
    vh::set_case("%s program: construct", Z::name());
    F f = Z::make();
    Z::fill(f);
    unsigned hits = read_all(f, 80);
    F g(f);
    hits += read_all(g, 30);
    F a = Z::make();
    a = g;
    hits += read_all(a, 30);
    F b(std::move(a));
    hits += read_all(b, 30);
    std::string bytes = zio::dump<Z>(b);
    dig = vh::fnv(bytes.data(), bytes.size(), dig);
    std::istringstream is(bytes, std::ios::binary);
    F l(is);
    hits += read_all(l, 30);
    g = std::move(l);
    hits += read_all(g, 30);
    if constexpr (Z::has_partner) {
        using P = typename Z::partner;
        typename P::field_t pf = P::make();
        P::fill_like(pf);
        F c(pf);
        hits += read_all(c, 30);
        // every byte of the converted field's storage is part of its value: it is dumped and copied as a whole
        std::string cb = zio::dump<Z>(c);
        dig = vh::fnv(cb.data(), cb.size(), dig);
        F cc(c);
        std::string ccb = zio::dump<Z>(cc);
        if (ccb != cb) vh::viol("program:copy-of-converted-field-dumps-differently", Z::type_string());
    }
    std::printf("@DIGEST %s\t%016llx\n", Z::name(), (unsigned long long)dig);
    vh::stat("programs");
    vh::stat("values_digested", hits);
    if (hits >= 8) vh::nontrivial(vh::fnv(Z::name()));
    vh::sample("program", std::string(Z::type_string()) + " digest=" + std::to_string(dig) + " over " + std::to_string(hits) + " in-domain lookups + dump bytes", 3);
}
}  // namespace zapi
