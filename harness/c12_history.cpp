// C12: fields stay independent values under any history of construction, writes, copy/move
// construction and assignment (incl. self-assignment), layout conversion, dump/load, destruction.
// A pool of model slots is driven by the same operation sequence as a pool of real fields; after
// EVERY operation every live field is compared with its model at every cell, through a freshly
// made view and through the long-lived view made when the field last (re)acquired its storage.
#include <cstdint>
#include <new>
#include <cstring>
#include <optional>
#include <sstream>
#include <tuple>
#include <variant>
#include <vector>

#include <covfie/core/backend/primitive/array.hpp>
#include <covfie/core/backend/transformer/affine.hpp>
#include <covfie/core/backend/transformer/hilbert.hpp>
#include <covfie/core/backend/transformer/morton.hpp>
#include <covfie/core/backend/transformer/nearest_neighbour.hpp>
#include <covfie/core/backend/transformer/strided.hpp>
#include <covfie/core/field.hpp>
#include <covfie/core/field_view.hpp>

#include "vh.hpp"

#if defined(__SANITIZE_ADDRESS__)
extern "C" int __lsan_do_recoverable_leak_check(void);
#endif

namespace cb = covfie::backend;
namespace cv = covfie::vector;

// three components per cell over two coordinates (N != M: a copy loop bounded by the wrong dimension count shows)
using arr2 = cb::array<cv::float3>;
using F0 = covfie::field<cb::strided<cv::size2, arr2>>;
using F1 = covfie::field<cb::morton<cv::size2, arr2>>;
using F2 = covfie::field<cb::hilbert<cv::size2, arr2>>;
using F3 = covfie::field<cb::affine<cb::nearest_neighbour<cb::strided<cv::size2, arr2>, cv::float2>>>;
using F4 = covfie::field<cb::strided<cv::size1, cb::array<cv::double1>>>;
constexpr int NTYPES = 5;
static const char * tname[NTYPES] = {"strided", "morton", "hilbert", "affine<nn<strided>>", "strided1d<double>"};
static const unsigned EXT[4][2] = {{2, 3}, {5, 2}, {3, 0}, {4, 3}};  // padded curve sides 4, 8, 4, 4; the third has no cells at all

template <int T>
struct type_of;
template <>
struct type_of<0> {
    using type = F0;
};
template <>
struct type_of<1> {
    using type = F1;
};
template <>
struct type_of<2> {
    using type = F2;
};
template <>
struct type_of<3> {
    using type = F3;
};
template <>
struct type_of<4> {
    using type = F4;
};

static uint64_t curve_len(unsigned a, unsigned b)
{
    uint64_t s = 1;
    while (s < a || s < b) s *= 2;
    return s * s;
}

template <int T>
static typename type_of<T>::type construct(unsigned ex, unsigned ey)
{
    using F = typename type_of<T>::type;
    covfie::utility::nd_size<2> e{(std::size_t)ex, (std::size_t)ey};
    if constexpr (T == 0) return F(covfie::make_parameter_pack(typename F::backend_t::configuration_t(e), covfie::utility::nd_size<1>{(std::size_t)ex * ey}));
    if constexpr (T == 1 || T == 2) return F(covfie::make_parameter_pack(typename F::backend_t::configuration_t(e), covfie::utility::nd_size<1>{curve_len(ex, ey)}));
    if constexpr (T == 3) {
        typename F::backend_t::configuration_t m(F::backend_t::matrix_t::identity());
        return F(covfie::make_parameter_pack(std::move(m), std::monostate{}, covfie::utility::nd_size<2>(e), covfie::utility::nd_size<1>{(std::size_t)ex * ey}));
    }
    if constexpr (T == 4) return F(covfie::make_parameter_pack(covfie::utility::nd_size<1>{(std::size_t)ex * ey}, covfie::utility::nd_size<1>{(std::size_t)ex * ey}));
}

// access cell (x, y), component j of a field through a view
template <int T, typename V>
static auto & cell(const V & v, unsigned x, unsigned y, unsigned ey)
{
    if constexpr (T == 3)
        return v.at((float)x, (float)y);
    else if constexpr (T == 4)
        return v.at(typename type_of<T>::type::coordinate_t{(std::size_t)x * ey + y});
    else
        return v.at((std::size_t)x, (std::size_t)y);
}
template <int T>
constexpr unsigned comps()
{
    return T == 4 ? 1 : 3;
}
constexpr unsigned MAXC = 3;

struct Model {
    int state = 0;  // 0 empty, 1 live, 2 dead (moved-from: may only be destroyed or assigned to)
    int type = -1;
    unsigned ex = 0, ey = 0;
    std::vector<double> v;
};

enum Kind { CONSTRUCT, DEFAULT_CONSTRUCT, WRITE, COPY_CONSTRUCT, MOVE_CONSTRUCT, COPY_ASSIGN, MOVE_ASSIGN, CONVERT_COPY, CONVERT_MOVE, DUMP_LOAD, ADOPT_TWICE, DESTROY, NKINDS };
static const char * kname[NKINDS] = {"construct", "default-construct", "write", "copy-construct", "move-construct", "copy-assign", "move-assign", "convert-copy", "convert-move", "dump+load", "two-fields-from-one-named-storage", "destroy"};
struct Op {
    Kind k;
    int dst, src, type, ext, cellsel;
};
static std::string show(const Op & o)
{
    std::ostringstream s;
    s << kname[o.k] << "(";
    switch (o.k) {
    case CONSTRUCT: s << "slot" << o.dst << "," << tname[o.type] << "," << EXT[o.ext][0] << "x" << EXT[o.ext][1]; break;
    case DEFAULT_CONSTRUCT: s << "slot" << o.dst << "," << tname[o.type]; break;
    case WRITE: s << "slot" << o.dst << ",cell#" << o.cellsel; break;
    case DESTROY: s << "slot" << o.dst; break;
    case CONVERT_COPY:
    case CONVERT_MOVE: s << "slot" << o.dst << "<-slot" << o.src << " as " << tname[o.type]; break;
    default: s << "slot" << o.dst << "<-slot" << o.src; break;
    }
    s << ")";
    return s.str();
}
static std::string show(const std::vector<Op> & h)
{
    std::string s;
    for (auto & o : h) s += (s.empty() ? "" : " ; ") + show(o);
    return s;
}

static bool convertible(int from, int to)
{
    return from != to && from <= 2 && to <= 2;  // the three 2-D float2 storage orders
}

struct Pool {
    static constexpr int MAXS = 4;
    int nslots;
    std::tuple<std::optional<F0>, std::optional<F1>, std::optional<F2>, std::optional<F3>, std::optional<F4>> f[MAXS];
    std::tuple<std::optional<F0::view_t>, std::optional<F1::view_t>, std::optional<F2::view_t>, std::optional<F3::view_t>, std::optional<F4::view_t>> views[MAXS];
    Model m[MAXS];
    uint64_t next_id = 1;
    explicit Pool(int n)
        : nslots(n)
    {
    }

    template <int T>
    auto & fld(int s)
    {
        return std::get<T>(f[s]);
    }
    template <int T>
    auto & vw(int s)
    {
        return std::get<T>(views[s]);
    }
    template <typename Fn>
    static void dispatch(int t, Fn fn)
    {
        switch (t) {
        case 0: fn(std::integral_constant<int, 0>{}); break;
        case 1: fn(std::integral_constant<int, 1>{}); break;
        case 2: fn(std::integral_constant<int, 2>{}); break;
        case 3: fn(std::integral_constant<int, 3>{}); break;
        case 4: fn(std::integral_constant<int, 4>{}); break;
        }
    }

    bool enabled(const Op & o) const
    {
        const Model & d = m[o.dst];
        switch (o.k) {
        case CONSTRUCT: return d.state == 0;
        // a default-constructed field has no cells and reports extents of zero -- for the row-major layer, whose default
        // constructor delegates to the zero extent vector (the curve layers' `= default` leaves theirs indeterminate, so
        // they are not asked).  The slot's memory has usually held another field before.
        case DEFAULT_CONSTRUCT: return d.state == 0 && (o.type == 0 || o.type == 4);
        case WRITE: return d.state == 1 && d.ex * d.ey > 0;
        case DESTROY: return d.state != 0;
        case COPY_CONSTRUCT:
        case MOVE_CONSTRUCT:
        case ADOPT_TWICE:
        case DUMP_LOAD: return o.dst != o.src && d.state == 0 && m[o.src].state == 1;
        case COPY_ASSIGN:
        case MOVE_ASSIGN: return m[o.src].state == 1 && d.state != 0 && d.type == m[o.src].type;
        case CONVERT_COPY:
        case CONVERT_MOVE: return o.dst != o.src && d.state == 0 && m[o.src].state == 1 && convertible(m[o.src].type, o.type);
        default: return false;
        }
    }

    void apply(const Op & o)
    {
        Model & d = m[o.dst];
        switch (o.k) {
        case CONSTRUCT:
            dispatch(o.type, [&](auto T) {
                fld<T.value>(o.dst).emplace(construct<T.value>(EXT[o.ext][0], EXT[o.ext][1]));
                vw<T.value>(o.dst).emplace(*fld<T.value>(o.dst));
            });
            d = Model{1, o.type, EXT[o.ext][0], EXT[o.ext][1], std::vector<double>(EXT[o.ext][0] * EXT[o.ext][1] * MAXC, 0.0)};
            break;
        case DEFAULT_CONSTRUCT:
            dispatch(o.type, [&](auto T) {
                // DEFAULT-initialised (`new (p) F;`, as `F f;` or `new F` do -- not value-initialised) in memory that
                // holds other bytes, then moved into the slot
                using F = typename type_of<T.value>::type;
                alignas(F) unsigned char buf[sizeof(F)];
                std::memset(buf, 0xA5, sizeof buf);
                F * p = ::new (static_cast<void *>(buf)) F;
                fld<T.value>(o.dst).emplace(std::move(*p));
                p->~F();
                vw<T.value>(o.dst).emplace(*fld<T.value>(o.dst));
            });
            d = Model{1, o.type, 0, 0, {}};
            break;
        case WRITE: {
            unsigned ncell = d.ex * d.ey;
            unsigned c = o.cellsel == 0 ? 0 : (o.cellsel == 1 ? ncell - 1 : (unsigned)(o.cellsel % ncell));
            unsigned x = c / d.ey, y = c % d.ey;
            dispatch(d.type, [&](auto T) {
                typename type_of<T.value>::type::view_t v(*fld<T.value>(o.dst));  // a fresh view
                for (unsigned j = 0; j < comps<T.value>(); ++j) {
                    double val = (double)(next_id++);
                    cell<T.value>(v, x, y, d.ey)[j] = (std::decay_t<decltype(cell<T.value>(v, x, y, d.ey)[j])>)val;
                    d.v[c * MAXC + j] = val;
                }
            });
            break;
        }
        case DESTROY:
            dispatch(d.type, [&](auto T) {
                vw<T.value>(o.dst).reset();
                fld<T.value>(o.dst).reset();
            });
            d = Model{};
            break;
        case COPY_CONSTRUCT:
            dispatch(m[o.src].type, [&](auto T) {
                fld<T.value>(o.dst).emplace(*fld<T.value>(o.src));
                vw<T.value>(o.dst).emplace(*fld<T.value>(o.dst));
            });
            d = m[o.src];
            break;
        case ADOPT_TWICE:
            // the source's storage is copied into a NAMED object, from which two fields are built one after the other
            // (as lvalue in a parameter pack); the second is kept.  The named object is the caller's: building a field
            // from it must leave it intact.
            dispatch(m[o.src].type, [&](auto T) {
                using F = typename type_of<T.value>::type;
                if constexpr (T.value <= 1) {
                    typename F::backend_t::owning_data_t kept(fld<T.value>(o.src)->backend());
                    {
                        F first(covfie::make_parameter_pack(kept));
                        (void)first;
                    }
                    fld<T.value>(o.dst).emplace(covfie::make_parameter_pack(kept));
                } else {
                    fld<T.value>(o.dst).emplace(*fld<T.value>(o.src));
                }
                vw<T.value>(o.dst).emplace(*fld<T.value>(o.dst));
            });
            d = m[o.src];
            break;
        case MOVE_CONSTRUCT:
            dispatch(m[o.src].type, [&](auto T) {
                vw<T.value>(o.src).reset();
                fld<T.value>(o.dst).emplace(std::move(*fld<T.value>(o.src)));
                vw<T.value>(o.dst).emplace(*fld<T.value>(o.dst));
            });
            d = m[o.src];
            m[o.src].state = 2;
            break;
        case COPY_ASSIGN:
            dispatch(m[o.src].type, [&](auto T) {
                auto & dst = *fld<T.value>(o.dst);
                const auto & src = *fld<T.value>(o.src);
                vw<T.value>(o.dst).reset();
                dst = src;  // o.dst == o.src: self-assignment
                vw<T.value>(o.dst).emplace(*fld<T.value>(o.dst));
            });
            if (o.dst != o.src) d = m[o.src];
            break;
        case MOVE_ASSIGN:
            dispatch(m[o.src].type, [&](auto T) {
                auto & dst = *fld<T.value>(o.dst);
                auto & src = *fld<T.value>(o.src);
                vw<T.value>(o.dst).reset();
                vw<T.value>(o.src).reset();
                dst = std::move(src);
                vw<T.value>(o.dst).emplace(*fld<T.value>(o.dst));
            });
            if (o.dst != o.src) {
                d = m[o.src];
                m[o.src].state = 2;
            }
            // o.dst == o.src: the property lists self-assignment among the operations after which every live field
            // still holds the model's values, so a self-move-assigned field stays live and unchanged
            break;
        case CONVERT_COPY:
        case CONVERT_MOVE:
            dispatch(m[o.src].type, [&](auto TS) {
                dispatch(o.type, [&](auto TD) {
                    if constexpr (TS.value <= 2 && TD.value <= 2 && TS.value != TD.value) {
                        using FD = typename type_of<TD.value>::type;
                        if (o.k == CONVERT_COPY)
                            fld<TD.value>(o.dst).emplace(FD(*fld<TS.value>(o.src)));
                        else {
                            vw<TS.value>(o.src).reset();
                            fld<TD.value>(o.dst).emplace(FD(std::move(*fld<TS.value>(o.src))));
                        }
                        vw<TD.value>(o.dst).emplace(*fld<TD.value>(o.dst));
                    }
                });
            });
            d = m[o.src];
            d.type = o.type;
            if (o.k == CONVERT_MOVE) m[o.src].state = 2;
            break;
        case DUMP_LOAD:
            dispatch(m[o.src].type, [&](auto T) {
                std::stringstream ss(std::ios::in | std::ios::out | std::ios::binary);
                fld<T.value>(o.src)->dump(ss);
                fld<T.value>(o.dst).emplace(typename type_of<T.value>::type(static_cast<std::istream &>(ss)));
                vw<T.value>(o.dst).emplace(*fld<T.value>(o.dst));
            });
            d = m[o.src];
            break;
        default: break;
        }
    }

    // every live field == its model, at every cell, through a fresh view and the long-lived one
    std::string check() const
    {
        for (int s = 0; s < nslots; ++s) {
            const Model & d = m[s];
            if (d.state != 1) continue;
            std::string bad;
            dispatch(d.type, [&](auto T) {
                using F = typename type_of<T.value>::type;
                const auto & fo = std::get<T.value>(f[s]);
                const auto & vo = std::get<T.value>(views[s]);
                if (!fo || !vo) {
                    bad = "harness: slot bookkeeping";
                    return;
                }
                typename F::view_t fresh(*fo);
                // reported extents
                if constexpr (T.value <= 2) {
                    auto e = fo->backend().get_configuration();
                    if (e[0] != d.ex || e[1] != d.ey) bad = "slot" + std::to_string(s) + " reports extents " + vh::jarr(e, 2);
                }
                for (unsigned x = 0; x < d.ex && bad.empty(); ++x)
                    for (unsigned y = 0; y < d.ey && bad.empty(); ++y)
                        for (unsigned j = 0; j < comps<T.value>(); ++j) {
                            double want = d.v[(x * d.ey + y) * MAXC + j];
                            double g1 = (double)cell<T.value>(fresh, x, y, d.ey)[j], g2 = (double)cell<T.value>(*vo, x, y, d.ey)[j];
                            vh::ev();
                            if (g1 != want || g2 != want) {
                                bad = "slot" + std::to_string(s) + " (" + tname[d.type] + ") cell (" + std::to_string(x) + "," + std::to_string(y) + ")[" + std::to_string(j) + "] holds " + std::to_string(g1) +
                                      " (long-lived view: " + std::to_string(g2) + "), model holds " + std::to_string(want);
                                break;
                            }
                        }
            });
            if (!bad.empty()) return bad;
        }
        return "";
    }
};

static uint64_t hash_hist(const std::vector<Op> & h)
{
    uint64_t x = 99;
    for (auto & o : h) {
        x = vh::mix(x, (int)o.k);
        x = vh::mix(x, o.dst * 1000 + o.src * 100 + o.type * 10 + o.ext);
        x = vh::mix(x, o.cellsel);
    }
    return x;
}

static bool nontrivial_hist(const std::vector<Op> & h)
{
    bool wrote = false;
    for (auto & o : h) {
        if (o.k == WRITE) wrote = true;
        if (wrote && o.k >= COPY_CONSTRUCT && o.k <= ADOPT_TWICE) return true;
    }
    return false;
}

// runs a history from an empty pool; returns false if some op was not enabled
static bool run_history(const std::vector<Op> & h, int nslots, const char * tag, bool count)
{
    Pool p(nslots);
    for (size_t i = 0; i < h.size(); ++i) {
        if (!p.enabled(h[i])) return false;
        if (i + 1 == h.size() || !count) vh::set_case("%s history: %s", tag, show(std::vector<Op>(h.begin(), h.begin() + i + 1)).c_str());
        p.apply(h[i]);
        std::string bad = p.check();
        if (!bad.empty()) {
            vh::viol(std::string(tag) + ":" + kname[h[i].k], "after [" + show(std::vector<Op>(h.begin(), h.begin() + i + 1)) + "]: " + bad);
            return true;
        }
    }
    if (count) {
        vh::stat("histories");
        if (nontrivial_hist(h)) vh::nontrivial(hash_hist(h));
    }
    return true;
}

static std::vector<Op> alphabet(int ta, int tb)
{
    std::vector<Op> a;
    for (int s = 0; s < 2; ++s) {
        for (int t : {ta, tb})
            for (int e = 0; e < 3; ++e) a.push_back({CONSTRUCT, s, -1, t, e, 0});
        for (int t : {ta, tb})
            if (t == 0 || t == 4) a.push_back({DEFAULT_CONSTRUCT, s, -1, t, 0, 0});
        for (int c = 0; c < 2; ++c) a.push_back({WRITE, s, -1, -1, 0, c});
        a.push_back({DESTROY, s, -1, -1, 0, 0});
        for (int r = 0; r < 2; ++r) {
            a.push_back({COPY_ASSIGN, s, r, -1, 0, 0});
            a.push_back({MOVE_ASSIGN, s, r, -1, 0, 0});
            if (r == s) continue;
            a.push_back({COPY_CONSTRUCT, s, r, -1, 0, 0});
            a.push_back({MOVE_CONSTRUCT, s, r, -1, 0, 0});
            a.push_back({DUMP_LOAD, s, r, -1, 0, 0});
            a.push_back({ADOPT_TWICE, s, r, -1, 0, 0});
            for (int t : {ta, tb}) {
                a.push_back({CONVERT_COPY, s, r, t, 0, 0});
                a.push_back({CONVERT_MOVE, s, r, t, 0, 0});
            }
        }
    }
    return a;
}

static void exhaustive(int ta, int tb, unsigned maxlen)
{
    std::vector<Op> alpha = alphabet(ta, tb);
    std::string tag = std::string("exhaustive<") + tname[ta] + "," + tname[tb] + ">";
    if (!vh::selected(tag)) return;
    std::vector<Op> h;
    uint64_t leaves = 0;
    std::function<void()> rec = [&]() {
        for (const Op & o : alpha) {
            h.push_back(o);
            if (run_history(h, 2, tag.c_str(), true)) {
                ++leaves;
                if (h.size() < maxlen && vh::st().viol_count.empty()) rec();
            }
            h.pop_back();
        }
    };
    rec();
    vh::stat("exhaustive_histories", leaves);
    // a sample
    std::vector<Op> s = {{CONSTRUCT, 0, -1, ta, 0, 0}, {WRITE, 0, -1, -1, 0, 1}, {CONVERT_COPY, 1, 0, tb, 0, 0}};
    vh::sample(tag, show(s) + " (one of " + std::to_string(leaves) + " histories of length <= " + std::to_string(maxlen) + ")", 1);
#if defined(__SANITIZE_ADDRESS__)
    if (__lsan_do_recoverable_leak_check()) vh::viol(tag + ":leak", "LeakSanitizer found leaked storage after the exhaustive histories");
#endif
}

static void random_histories(vh::Rng & rng, unsigned count, unsigned len)
{
    const char * tag = "random";
    for (unsigned n = 0; n < count; ++n) {
        Pool p(4);
        std::vector<Op> h;
        bool failed = false;
        for (unsigned i = 0; i < len && !failed; ++i) {
            Op o;
            for (int tries = 0; tries < 50; ++tries) {
                o = Op{(Kind)rng.below(NKINDS), (int)rng.below(4), (int)rng.below(4), (int)rng.below(NTYPES), (int)rng.below(4), (int)rng.below(12)};
                if (o.k == WRITE && rng.below(3)) o.cellsel = (int)rng.below(2);
                if (o.k == DESTROY && rng.below(3)) continue;  // keep the pool populated
                if (p.enabled(o)) break;
                o.k = NKINDS;
            }
            if (o.k == NKINDS) continue;
            h.push_back(o);
            vh::set_case("random history #%u step %u: ...%s", n, i, show(std::vector<Op>(h.size() > 6 ? h.end() - 6 : h.begin(), h.end())).c_str());
            p.apply(o);
            std::string bad = p.check();
            if (!bad.empty()) {
                vh::viol(std::string(tag) + ":" + kname[o.k], "history #" + std::to_string(n) + " after [" + show(std::vector<Op>(h.size() > 8 ? h.end() - 8 : h.begin(), h.end())) + "]: " + bad);
                failed = true;
            }
        }
        vh::stat("histories");
        vh::stat("random_history_ops", h.size());
#if defined(SH_DIGEST)
        {
            // every value of every live field at the end of the history
            uint64_t dg = hash_hist(h);
            for (int s = 0; s < 4; ++s) {
                const Model & d = p.m[s];
                if (d.state != 1) continue;
                Pool::dispatch(d.type, [&](auto T) {
                    typename type_of<T.value>::type::view_t v(*std::get<T.value>(p.f[s]));
                    for (unsigned x = 0; x < d.ex; ++x)
                        for (unsigned y = 0; y < d.ey; ++y)
                            for (unsigned j = 0; j < comps<T.value>(); ++j) {
                                auto val = cell<T.value>(v, x, y, d.ey)[j];
                                dg = vh::mix(dg, val);
                            }
                });
            }
            std::printf("@DIGEST history#%u\t%016llx\n", n, (unsigned long long)dg);
            vh::stat("programs");
        }
#endif
        if (nontrivial_hist(h)) vh::nontrivial(hash_hist(h));
        if (n == 0) vh::sample(tag, show(std::vector<Op>(h.begin(), h.begin() + (h.size() > 10 ? 10 : h.size()))) + " ... (" + std::to_string(h.size()) + " operations)", 1);
#if defined(__SANITIZE_ADDRESS__)
        if (n % 200 == 199 && __lsan_do_recoverable_leak_check()) {
            vh::viol(std::string(tag) + ":leak", "LeakSanitizer found leaked storage within random histories " + std::to_string(n - 199) + ".." + std::to_string(n));
            return;
        }
#endif
        if (failed) return;
    }
}

// Empty fields: a default-constructed field of bare array storage holds no cells and no buffer; it is a value like
// any other (copied, assigned in both directions, moved, dumped and loaded).  A moved-from field may be assigned to.
static void empty_fields()
{
    using E = covfie::field<cb::array<cv::float3>>;
    using len1 = covfie::utility::nd_size<1>;
    const char * tag = "empty-fields";
    if (!vh::selected(tag)) return;
    vh::set_case("%s", tag);
    auto cells = [](const E & f) { return (uint64_t)f.backend().get_configuration()[0]; };
    auto fill = [](E & f, float base) {
        E::view_t v(f);
        for (std::size_t i = 0; i < f.backend().get_configuration()[0]; ++i)
            for (std::size_t j = 0; j < 3; ++j) v.at(i)[j] = base + (float)(3 * i + j);
    };
    auto holds = [&](const E & f, uint64_t n, float base, const char * what) {
        vh::ev();
        if (cells(f) != n) {
            vh::viol(std::string(tag) + ":" + what, "field reports " + std::to_string(cells(f)) + " cells, expected " + std::to_string(n));
            return;
        }
        E::view_t v(f);
        for (std::size_t i = 0; i < n; ++i)
            for (std::size_t j = 0; j < 3; ++j)
                if (v.at(i)[j] != base + (float)(3 * i + j)) {
                    vh::viol(std::string(tag) + ":" + what, "cell " + std::to_string(i) + " differs");
                    return;
                }
    };
    E a;
    holds(a, 0, 0, "default-construct");
    E b(a);
    holds(b, 0, 0, "copy-construct from empty");
    E c;
    c = a;
    holds(c, 0, 0, "copy-assign empty <- empty");
    E & self = a;
    a = self;
    holds(a, 0, 0, "self-assign empty");
    E d(covfie::make_parameter_pack(len1{5ul}));
    fill(d, 10.f);
    E d2(d);
    d2 = a;
    holds(d2, 0, 0, "copy-assign non-empty <- empty");
    holds(d, 5, 10.f, "source of that copy");
    E e;
    e = d;
    holds(e, 5, 10.f, "copy-assign empty <- non-empty");
    E m(std::move(b));
    holds(m, 0, 0, "move-construct from empty");
    E z(covfie::make_parameter_pack(len1{0ul}));
    E z2(z);
    holds(z2, 0, 0, "copy of a zero-length field");
    z2 = a;
    holds(z2, 0, 0, "zero-length <- empty");
    {
        std::stringstream ss(std::ios::in | std::ios::out | std::ios::binary);
        a.dump(ss);
        E r(static_cast<std::istream &>(ss));
        holds(r, 0, 0, "dump+load of an empty field");
    }
    // a moved-from field is assigned to (copy and move)
    E src(covfie::make_parameter_pack(len1{4ul}));
    fill(src, 100.f);
    E taken(std::move(src));
    src = d;
    holds(src, 5, 10.f, "copy-assign to a moved-from field");
    E src2(covfie::make_parameter_pack(len1{2ul}));
    E taken2(std::move(src2));
    src2 = std::move(taken);
    holds(src2, 4, 100.f, "move-assign to a moved-from field");
    vh::stat("empty_field_scenarios");
    vh::sample(tag, "default-constructed / zero-length / moved-from fields copied, assigned both ways, moved, dumped and loaded", 1);
}

int main(int argc, char ** argv)
{
    vh::init(argc, argv);
    vh::Rng rng(vh::st().seed * 6700417 + 12);
    bool th = vh::st().thorough;
#if defined(SH_EXHAUSTIVE)
    unsigned L = th ? 4 : 3;
#if SH_EXHAUSTIVE == 0
    exhaustive(0, 1, L);
#elif SH_EXHAUSTIVE == 1
    exhaustive(0, 2, L);
#elif SH_EXHAUSTIVE == 2
    exhaustive(1, 2, th ? 4 : 3);
#else
    exhaustive(3, 4, L);
#endif
#endif
#if defined(SH_RANDOM)
    empty_fields();
#if defined(SH_DIGEST)
    random_histories(rng, th ? 1500 : 150, 120);
#else
    random_histories(rng, th ? 25000 : 500, 200);
#endif
#endif
    return vh::finish();
}
