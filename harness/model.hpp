// model.hpp -- reference interpreter for covfie layer stacks.  Evaluates a stack description
// layer by layer in binary128: coordinate maps from the outermost layer inwards, the innermost
// backend from an independent model, value maps on the way out.  Also decides IN-DOMAIN:
// a lookup the library does not define (index out of range, i+1 out of range under linear,
// negative value before an unsigned cast) yields ok=false and is skipped before covfie is called.
// Shares no code with covfie.
#pragma once
#include <cstdint>
#include <functional>
#include <memory>
#include <string>
#include <vector>

#include <quadmath.h>

namespace model {
typedef __float128 Q;
typedef std::vector<Q> Vec;

enum Scalar { S_FLOAT, S_DOUBLE, S_INT, S_UNSIGNED, S_SIZE, S_LONG };

inline bool is_real(Scalar s)
{
    return s == S_FLOAT || s == S_DOUBLE;
}
inline bool is_unsigned(Scalar s)
{
    return s == S_UNSIGNED || s == S_SIZE;
}
inline Q type_max(Scalar s)
{
    switch (s) {
    case S_INT: return (Q)2147483647;
    case S_UNSIGNED: return (Q)4294967295u;
    case S_LONG: return (Q)9223372036854775807ll;
    case S_SIZE: return (Q)18446744073709551615ull;
    default: return (Q)0;
    }
}
inline Q type_min(Scalar s)
{
    switch (s) {
    case S_INT: return -(Q)2147483648ll;
    case S_LONG: return -(Q)9223372036854775807ll - 1;
    default: return (Q)0;
    }
}

// v is the expected value; `alts` holds further admissible values (a nearest-neighbour lookup exactly
// half-way between two lattice points may choose either: the property fixes no tie direction)
struct Result {
    bool ok = false;
    Vec v;
    std::vector<Vec> alts;
    static Result bad()
    {
        return Result();
    }
    static Result good(Vec v)
    {
        Result r;
        r.ok = true;
        r.v = std::move(v);
        return r;
    }
    bool admits(const Vec & got) const
    {
        if (got == v) return true;
        for (const Vec & a : alts)
            if (got == a) return true;
        return false;
    }
    template <typename F>
    bool map_all(F f)
    {
        if (!f(v)) return false;
        for (Vec & a : alts)
            if (!f(a)) return false;
        return true;
    }
};

// static_cast<target>(x) on a value; ok=false when the C++ conversion is undefined
inline bool cast_scalar(Q x, Scalar target, Q & out)
{
    if (is_real(target)) {
        // all values the generators create are exactly representable in float; a cast that would
        // round is flagged by the caller through exactness checks (none occur by construction)
        out = target == S_FLOAT ? (Q)(float)x : (Q)(double)x;
        return true;
    }
    Q t = truncq(x);
    if (t < type_min(target) || t > type_max(target)) return false;
    out = t;
    return true;
}

struct Node {
    virtual ~Node() {}
    virtual Result at(const Vec & c) const = 0;
    virtual std::string describe() const = 0;
    virtual bool changes() const
    {
        return true;
    }  // does this layer change coordinate or value?
    std::unique_ptr<Node> inner;
};
typedef std::unique_ptr<Node> P;

// ---------------------------------------------------------------- innermost backends
struct ArrayNode : Node {
    uint64_t len, m;
    std::function<Q(uint64_t, uint64_t)> value;
    Result at(const Vec & c) const override
    {
        if (c.size() != 1 || c[0] < 0 || c[0] >= (Q)len || c[0] != truncq(c[0])) return Result::bad();
        Vec v(m);
        for (uint64_t j = 0; j < m; ++j) v[j] = value((uint64_t)c[0], j);
        return Result::good(v);
    }
    std::string describe() const override
    {
        return "array[" + std::to_string(len) + "]x" + std::to_string(m);
    }
    bool changes() const override
    {
        return false;
    }
};
inline P array(uint64_t len, uint64_t m, std::function<Q(uint64_t, uint64_t)> value)
{
    auto n = std::make_unique<ArrayNode>();
    n->len = len;
    n->m = m;
    n->value = std::move(value);
    return n;
}

struct IdentityNode : Node {
    Result at(const Vec & c) const override
    {
        return Result::good(c);
    }
    std::string describe() const override
    {
        return "identity";
    }
    bool changes() const override
    {
        return false;
    }
};
inline P identity()
{
    return std::make_unique<IdentityNode>();
}

struct ConstantNode : Node {
    Vec value;
    Result at(const Vec &) const override
    {
        return Result::good(value);
    }
    std::string describe() const override
    {
        return "constant";
    }
    bool changes() const override
    {
        return false;
    }
};
inline P constant(Vec v)
{
    auto n = std::make_unique<ConstantNode>();
    n->value = std::move(v);
    return n;
}

// query-recording N-d backend (mirror of probe::nd): out[j] = sum_k c[k] 64^k + j 64^N
struct ProbeNdNode : Node {
    uint64_t m;
    Result at(const Vec & c) const override
    {
        Vec v(m);
        Q w = 1, s = 0;
        for (Q x : c) {
            s += x * w;
            w *= 64;
        }
        for (uint64_t j = 0; j < m; ++j) v[j] = s + (Q)j * w;
        return Result::good(v);
    }
    std::string describe() const override
    {
        return "probe_nd";
    }
    bool changes() const override
    {
        return false;
    }
};
inline P probe_nd(uint64_t m)
{
    auto n = std::make_unique<ProbeNdNode>();
    n->m = m;
    return n;
}

// ---------------------------------------------------------------- storage orders
inline bool in_box(const Vec & c, const std::vector<uint64_t> & ext)
{
    if (c.size() != ext.size()) return false;
    for (size_t k = 0; k < c.size(); ++k)
        if (c[k] < 0 || c[k] >= (Q)ext[k] || c[k] != truncq(c[k])) return false;
    return true;
}

struct StridedNode : Node {
    std::vector<uint64_t> ext;
    Result at(const Vec & c) const override
    {
        if (!in_box(c, ext)) return Result::bad();
        Q idx = 0;
        for (size_t k = 0; k < c.size(); ++k) {
            Q t = c[k];
            for (size_t l = k + 1; l < c.size(); ++l) t *= (Q)ext[l];
            idx += t;
        }
        return inner->at(Vec{idx});
    }
    std::string describe() const override
    {
        return "strided";
    }
};
inline P strided(std::vector<uint64_t> ext, P inner)
{
    auto n = std::make_unique<StridedNode>();
    n->ext = std::move(ext);
    n->inner = std::move(inner);
    return n;
}

struct MortonNode : Node {
    std::vector<uint64_t> ext;
    Result at(const Vec & c) const override
    {
        if (!in_box(c, ext)) return Result::bad();
        unsigned __int128 idx = 0;
        for (size_t j = 0; j < c.size(); ++j) {
            uint64_t v = (uint64_t)c[j];
            for (unsigned b = 0; b < 40; ++b)
                if ((v >> b) & 1) idx |= (unsigned __int128)1 << (b * c.size() + j);
        }
        return inner->at(Vec{(Q)idx});
    }
    std::string describe() const override
    {
        return "morton";
    }
};
inline P morton(std::vector<uint64_t> ext, P inner)
{
    auto n = std::make_unique<MortonNode>();
    n->ext = std::move(ext);
    n->inner = std::move(inner);
    return n;
}

struct HilbertNode : Node {
    std::vector<uint64_t> ext;
    std::vector<uint64_t> pos;  // (x * side + y) -> d, from the inverse walk
    uint64_t side = 1;
    void build()
    {
        uint64_t mx = ext[0] > ext[1] ? ext[0] : ext[1];
        while (side < mx) side *= 2;
        pos.assign(side * side, 0);
        for (uint64_t d = 0; d < side * side; ++d) {
            uint64_t x = 0, y = 0, t = d;
            for (uint64_t s = 1; s < side; s *= 2) {
                uint64_t rx = 1 & (t / 2), ry = 1 & (t ^ rx);
                if (ry == 0) {
                    if (rx == 1) {
                        x = s - 1 - x;
                        y = s - 1 - y;
                    }
                    std::swap(x, y);
                }
                x += s * rx;
                y += s * ry;
                t /= 4;
            }
            pos[x * side + y] = d;
        }
    }
    Result at(const Vec & c) const override
    {
        if (!in_box(c, ext)) return Result::bad();
        return inner->at(Vec{(Q)pos[(uint64_t)c[0] * side + (uint64_t)c[1]]});
    }
    std::string describe() const override
    {
        return "hilbert";
    }
};
inline P hilbert(std::vector<uint64_t> ext, P inner)
{
    auto n = std::make_unique<HilbertNode>();
    n->ext = std::move(ext);
    n->build();
    n->inner = std::move(inner);
    return n;
}

// ---------------------------------------------------------------- wrappers
struct ClampNode : Node {
    Vec lo, hi;
    Result at(const Vec & c) const override
    {
        Vec n(c.size());
        for (size_t k = 0; k < c.size(); ++k) n[k] = c[k] < lo[k] ? lo[k] : (hi[k] < c[k] ? hi[k] : c[k]);
        return inner->at(n);
    }
    std::string describe() const override
    {
        return "clamp";
    }
};
inline P clamp(Vec lo, Vec hi, P inner)
{
    auto n = std::make_unique<ClampNode>();
    n->lo = std::move(lo);
    n->hi = std::move(hi);
    n->inner = std::move(inner);
    return n;
}

struct BackupNode : Node {
    Vec lo, hi, def;
    Result at(const Vec & c) const override
    {
        for (size_t k = 0; k < c.size(); ++k)
            if (c[k] < lo[k] || c[k] > hi[k]) return Result::good(def);
        return inner->at(c);
    }
    std::string describe() const override
    {
        return "backup";
    }
};
inline P backup(Vec lo, Vec hi, Vec def, P inner)
{
    auto n = std::make_unique<BackupNode>();
    n->lo = std::move(lo);
    n->hi = std::move(hi);
    n->def = std::move(def);
    n->inner = std::move(inner);
    return n;
}

struct ShuffleNode : Node {
    std::vector<size_t> perm;
    Result at(const Vec & c) const override
    {
        Vec n(c.size());
        for (size_t k = 0; k < c.size(); ++k) n[k] = c[perm[k]];
        return inner->at(n);
    }
    std::string describe() const override
    {
        return "shuffle";
    }
    bool changes() const override
    {
        for (size_t k = 0; k < perm.size(); ++k)
            if (perm[k] != k) return true;
        return false;
    }
};
inline P shuffle(std::vector<size_t> perm, P inner)
{
    auto n = std::make_unique<ShuffleNode>();
    n->perm = std::move(perm);
    n->inner = std::move(inner);
    return n;
}

struct AffineNode : Node {
    std::vector<Vec> a;  // N rows of N+1
    Scalar scalar;       // coordinate scalar type: integer types must stay in range
    Result at(const Vec & c) const override
    {
        Vec n(c.size());
        for (size_t i = 0; i < c.size(); ++i) {
            Q s = a[i][c.size()];
            for (size_t j = 0; j < c.size(); ++j) s += a[i][j] * c[j];
            if (!is_real(scalar) && (s < type_min(scalar) || s > type_max(scalar))) return Result::bad();
            n[i] = s;
        }
        return inner->at(n);
    }
    std::string describe() const override
    {
        return "affine";
    }
};
inline P affine(std::vector<Vec> a, Scalar scalar, P inner)
{
    auto n = std::make_unique<AffineNode>();
    n->a = std::move(a);
    n->scalar = scalar;
    n->inner = std::move(inner);
    return n;
}

struct CastNode : Node {
    Scalar target;
    Result at(const Vec & c) const override
    {
        Result r = inner->at(c);
        if (!r.ok) return r;
        Scalar t = target;
        if (!r.map_all([t](Vec & vv) {
                for (Q & x : vv)
                    if (!cast_scalar(x, t, x)) return false;
                return true;
            }))
            return Result::bad();
        return r;
    }
    std::string describe() const override
    {
        return "covariant_cast";
    }
};
inline P cast(Scalar target, P inner)
{
    auto n = std::make_unique<CastNode>();
    n->target = target;
    n->inner = std::move(inner);
    return n;
}

struct DerefNode : Node {
    Result at(const Vec & c) const override
    {
        return inner->at(c);
    }
    std::string describe() const override
    {
        return "dereference";
    }
    bool changes() const override
    {
        return false;
    }
};
inline P deref(P inner)
{
    auto n = std::make_unique<DerefNode>();
    n->inner = std::move(inner);
    return n;
}

// nearest neighbour: round half to even, then cast to the backend's index type
struct NNNode : Node {
    Scalar index;
    Result at(const Vec & c) const override
    {
        // per axis: the nearest lattice point, or both neighbours on an exact tie (first = round-half-even)
        std::vector<std::vector<Q>> cand(c.size());
        size_t combos = 1;
        for (size_t k = 0; k < c.size(); ++k) {
            Q f = floorq(c[k]), r = c[k] - f;
            if (r < (Q)0.5)
                cand[k] = {f};
            else if (r > (Q)0.5)
                cand[k] = {f + 1};
            else
                cand[k] = (fmodq(f, 2) == 0) ? std::vector<Q>{f, f + 1} : std::vector<Q>{f + 1, f};
            for (Q v : cand[k])
                if (v < type_min(index) || v > type_max(index)) return Result::bad();
            combos *= cand[k].size();
        }
        Result out;
        for (size_t m = 0; m < combos; ++m) {
            Vec n(c.size());
            size_t q = m;
            for (size_t k = 0; k < c.size(); ++k) {
                n[k] = cand[k][q % cand[k].size()];
                q /= cand[k].size();
            }
            Result r = inner->at(n);
            if (!r.ok) return Result::bad();  // every admissible choice must be in-domain, else the lookup is skipped
            if (m == 0)
                out = r;
            else {
                out.alts.push_back(r.v);
                for (Vec & a : r.alts) out.alts.push_back(a);
            }
        }
        return out;
    }
    std::string describe() const override
    {
        return "nearest_neighbour";
    }
};
inline P nn(Scalar index, P inner)
{
    auto n = std::make_unique<NNNode>();
    n->index = index;
    n->inner = std::move(inner);
    return n;
}

// N-linear interpolation over the INPUT dimensions; all 2^N corners must be in-domain
struct LinearNode : Node {
    Scalar index;
    Result at(const Vec & c) const override
    {
        size_t n = c.size();
        Vec base(n), fr(n);
        for (size_t k = 0; k < n; ++k) {
            if (c[k] < 0) return Result::bad();  // conversion to the index type / extrapolation: outside the grid
            base[k] = truncq(c[k]);
            fr[k] = c[k] - base[k];
            if (base[k] + 1 > type_max(index)) return Result::bad();
        }
        Vec acc;
        for (uint64_t bits = 0; bits < (1ull << n); ++bits) {
            Vec cc(n);
            Q w = 1;
            for (size_t k = 0; k < n; ++k) {
                bool up = (bits >> k) & 1;
                cc[k] = base[k] + (up ? 1 : 0);
                w *= up ? fr[k] : (1 - fr[k]);
            }
            Result r = inner->at(cc);
            if (!r.ok) return r;
            if (acc.empty()) acc.assign(r.v.size(), 0);
            for (size_t j = 0; j < r.v.size(); ++j) acc[j] += w * r.v[j];
        }
        return Result::good(acc);
    }
    std::string describe() const override
    {
        return "linear";
    }
};
inline P linear(Scalar index, P inner)
{
    auto n = std::make_unique<LinearNode>();
    n->index = index;
    n->inner = std::move(inner);
    return n;
}

inline size_t count_changing(const Node * n)
{
    size_t k = 0;
    for (; n; n = n->inner.get()) k += n->changes();
    return k;
}
inline size_t depth(const Node * n)
{
    size_t k = 0;
    for (; n; n = n->inner.get()) ++k;
    return k;
}
}  // namespace model
