// storage_common.hpp -- helpers shared by the storage-order checks (C01, C05, C12).
#pragma once
#include <cstdint>
#include <string>
#include <vector>

#include <covfie/core/utility/nd_size.hpp>

#include "vh.hpp"

namespace sc {
template <std::size_t N>
using ext_t = covfie::utility::nd_size<N>;

// mixed-radix successor over 1..B per axis; returns false after the last vector
template <std::size_t N>
inline bool next_ext(ext_t<N> & e, std::size_t B)
{
    std::size_t k = 0;
    while (k < N && ++e[k] > B) {
        e[k] = 1;
        ++k;
    }
    return k < N;
}

template <std::size_t N>
inline uint64_t cells(const ext_t<N> & e)
{
    uint64_t p = 1;
    for (std::size_t k = 0; k < N; ++k) p *= e[k];
    return p;
}

// successor of an in-range coordinate (first axis fastest); false after the last
template <std::size_t N>
inline bool next_coord(uint64_t * c, const ext_t<N> & e)
{
    std::size_t k = 0;
    while (k < N && ++c[k] >= e[k]) {
        c[k] = 0;
        ++k;
    }
    return k < N;
}

// position of a coordinate in the MODEL (an ordinary dense array; the order is the model's
// own business and has nothing to do with covfie's layouts)
template <std::size_t N>
inline uint64_t model_pos(const uint64_t * c, const ext_t<N> & e)
{
    uint64_t p = 0;
    for (std::size_t k = N; k-- > 0;) p = p * e[k] + c[k];
    return p;
}

// length of the padded storage the library's own conversions allocate for a space-filling
// curve: (least power of two >= max extent)^N, computed by counting
template <std::size_t N>
inline uint64_t curve_len(const ext_t<N> & e)
{
    uint64_t mx = 1;
    for (std::size_t k = 0; k < N; ++k) mx = e[k] > mx ? e[k] : mx;
    uint64_t side = 1;
    while (side < mx) side <<= 1;
    uint64_t len = 1;
    for (std::size_t k = 0; k < N; ++k) len *= side;
    return len;
}

template <std::size_t N>
inline bool trivial_ext(const ext_t<N> & e)
{
    bool alleq = true, p2 = true;
    for (std::size_t k = 0; k < N; ++k) {
        alleq = alleq && e[k] == e[0];
        p2 = p2 && (e[k] & (e[k] - 1)) == 0;
    }
    return alleq && p2;
}

template <std::size_t N>
inline std::string show(const ext_t<N> & e)
{
    return vh::jarr(e, N);
}
}  // namespace sc
