"""Independent reader of the covfie binary format (stdlib only): the nested
header / payload / footer grammar, driven by a stack descriptor (zoo.Stack.fmt_descriptor()).

    file    := MH 0xAB000000 layer MF 0xCB000000
    layer   := MH tag payload layer MF tag+0x20000000        (tagged wrapper / storage order)
             | MH tag payload MF tag+0x20000000               (constant, identity)
             | MH 0xAB010000 u32 width u64 count scalars MF 0xCB010000   (array)
Untagged layers (both interpolators, shuffle, cast, dereference) leave no trace."""
import struct

MH, MF = 0xC04F1EAB, 0xC04F1E70
FIELD = 0xAB000000


class FormatError(Exception):
    pass


class Reader:
    def __init__(self, data):
        self.d, self.p = data, 0

    def u32(self, what):
        if self.p + 4 > len(self.d):
            raise FormatError("truncated at byte %d reading %s" % (self.p, what))
        v = struct.unpack_from("<I", self.d, self.p)[0]
        self.p += 4
        return v

    def u64(self, what):
        if self.p + 8 > len(self.d):
            raise FormatError("truncated at byte %d reading %s" % (self.p, what))
        v = struct.unpack_from("<Q", self.d, self.p)[0]
        self.p += 8
        return v

    def take(self, n, what):
        if self.p + n > len(self.d):
            raise FormatError("truncated at byte %d reading %s (%d bytes)" % (self.p, what, n))
        b = self.d[self.p:self.p + n]
        self.p += n
        return b

    def expect(self, v, what):
        at = self.p
        g = self.u32(what)
        if g != v:
            raise FormatError("byte %d: %s is 0x%08X, expected 0x%08X" % (at, what, g, v))


def parse(data, descriptor, width_override=None):
    """returns a summary dict or raises FormatError"""
    r = Reader(data)
    r.expect(MH, "global header")
    r.expect(FIELD, "field tag")
    summary = {"layers": [], "array": None}

    def layer(i):
        if i >= len(descriptor):
            raise FormatError("descriptor exhausted: stack has no serialisable innermost backend")
        L = descriptor[i]
        r.expect(MH, "layer %d header" % i)
        r.expect(L["tag"], "layer %d tag" % i)
        if L.get("array"):
            w = r.u32("float width")
            if w not in (4, 8):
                raise FormatError("float width %d" % w)
            if width_override is None and w != L["width"]:
                raise FormatError("float width %d but the writer stores %d-byte scalars" % (w, L["width"]))
            n = r.u64("element count")
            if n != L["len"]:
                raise FormatError("element count %d, expected %d" % (n, L["len"]))
            r.take(n * L["m"] * w, "array payload")
            summary["array"] = {"width": w, "count": n, "m": L["m"]}
        else:
            pl = r.take(L["payload"], "layer %d payload" % i)
            if "extents" in L:
                ext = list(struct.unpack("<%dQ" % len(L["extents"]), pl))
                if ext != list(L["extents"]):
                    raise FormatError("layer %d extents %s, expected %s" % (i, ext, L["extents"]))
            if not L.get("leaf"):
                layer(i + 1)
        r.expect(MF, "layer %d footer" % i)
        r.expect((L["tag"] + 0x20000000) & 0xFFFFFFFF, "layer %d footer tag" % i)
        summary["layers"].append(L["tag"])

    layer(0)
    r.expect(MF, "global footer")
    r.expect(FIELD + 0x20000000, "field footer tag")
    if r.p != len(data):
        raise FormatError("%d trailing bytes" % (len(data) - r.p))
    summary["bytes"] = len(data)
    return summary
