"""The layer grammar and the 'zoo' generator: one description of the shipped layers, used by
C02, C06, C07, C08, C13, C15 and C17.

    stack      := real_level | int_level | store
    real_level := RW<real_level> | interp | prim_real
    interp     := linear<int_level, realN> | nearest_neighbour<int_level, realN>
    int_level  := IW<int_level> | order | prim_int
    order      := strided<idxN, store> | morton<idxN, store, bmi2?> | hilbert<idx2, store>
    store      := array<scalarM> | identity<size1>
    prim_real  := constant<realN, scalarM> | identity<realN>
    prim_int   := constant<idxN, scalarM>  | identity<idxN>
    RW, IW     := affine | clamp | backup | shuffle<perm> | covariant_cast<T> | dereference

From a stack description the generator emits a C++ struct with the type alias, a constructor
(from a parameter pack), a storage filler that writes straight through the array backend, the
construction of the reference-interpreter model (harness/model.hpp) and per-layer expected
configurations.  All configuration values are small integers or multiples of 1/4 so that every
reference computation is exact in float."""
import hashlib
import itertools
import random

WRAP = ["affine", "clamp", "backup", "shuffle", "cast", "deref"]
INTERP = ["linear", "nn"]
ORDER = ["strided", "morton_t", "morton_f", "hilbert"]
STORE = ["array", "identity1"]
PRIM = ["constant", "identity"]

CXX = {"float": "float", "double": "double", "int": "int", "unsigned": "unsigned", "size_t": "std::size_t", "long": "long"}
MS = {"float": "model::S_FLOAT", "double": "model::S_DOUBLE", "int": "model::S_INT", "unsigned": "model::S_UNSIGNED",
      "size_t": "model::S_SIZE", "long": "model::S_LONG"}
REALS = ["float", "double"]
IDXS = ["size_t", "unsigned", "int"]


def lit(v, t):
    """typed C++ literal of the (exactly representable) number v in scalar type t"""
    if t in ("float", "double"):
        s = repr(float(v))
        if "e" not in s and "." not in s:
            s += ".0"
        return s + ("f" if t == "float" else "")
    v = int(v)
    if t == "int":
        return "%d" % v
    if t == "unsigned":
        return "%du" % v
    if t == "long":
        return "%dl" % v
    return "%dul" % v


def qlit(v):
    return "(model::Q)%r" % float(v)


def vecd(t, n):
    return "cv::vector_d<%s, %d>" % (CXX[t], n)


# ------------------------------------------------------------------ kind sequences
def sequences(maxdepth):
    """all well-kinded kind sequences (outer -> inner) up to maxdepth layers"""
    out = []

    def wraps(k):
        return itertools.product(WRAP, repeat=k)

    for total in range(1, maxdepth + 1):
        # F: bare storage
        if total == 1:
            out.append(("array",))
        # C: RW^k prim_real ; E: IW^k prim_int
        for w in wraps(total - 1):
            for p in PRIM:
                out.append(tuple("r:" + x for x in w) + ("r:" + p,))
                out.append(tuple("i:" + x for x in w) + ("i:" + p,))
        # D: IW^k order store
        if total >= 2:
            for w in wraps(total - 2):
                for o in ORDER:
                    for s in STORE:
                        out.append(tuple("i:" + x for x in w) + (o, s))
        # B: RW^a interp IW^b prim_int
        if total >= 2:
            for a in range(total - 1):
                b = total - 2 - a
                for wa in wraps(a):
                    for wb in wraps(b):
                        for it in INTERP:
                            for p in PRIM:
                                out.append(tuple("r:" + x for x in wa) + (it,) + tuple("i:" + x for x in wb) + ("i:" + p,))
        # A: RW^a interp IW^b order store
        if total >= 3:
            for a in range(total - 2):
                b = total - 3 - a
                for wa in wraps(a):
                    for wb in wraps(b):
                        for it in INTERP:
                            for o in ORDER:
                                for s in STORE:
                                    out.append(tuple("r:" + x for x in wa) + (it,) + tuple("i:" + x for x in wb) + (o, s))
    return out


def base(kind):
    return kind.split(":")[-1]


NM_ROT = [(1, 3), (3, 1), (2, 4), (4, 2), (2, 2), (3, 2), (1, 1), (2, 3), (3, 3), (4, 1), (1, 2), (3, 4), (4, 4), (2, 1), (1, 4), (4, 3)]


class Stack:
    """A fully parameterised stack.  layers: list of dicts outer -> inner."""

    def __init__(self, seq, rng, ordinal):
        self.seq = seq
        self.ok = True
        self.layers = [{"kind": base(k), "level": k.split(":")[0] if ":" in k else ""} for k in seq]
        self._parametrise(rng, ordinal)

    # -------------------------------------------------------------- parameters
    def _parametrise(self, rng, ordinal):
        kinds = [l["kind"] for l in self.layers]
        n, m = NM_ROT[ordinal % len(NM_ROT)]
        if "hilbert" in kinds:
            n = 2
        has_interp = any(k in INTERP for k in kinds)
        self.real = rng.choice(REALS)
        self.idx = rng.choice(IDXS) if rng.random() < 0.5 else "size_t"
        self.store = rng.choice(REALS)
        inner = self.layers[-1]
        innerk = inner["kind"]
        # innermost backend
        if innerk == "array":
            if len(self.layers) == 1:
                self.n = 1
            else:
                self.n = n
            self.m = m
        elif innerk == "identity1":
            self.n, self.m = n, 1
        elif innerk == "identity":
            self.n = self.m = n
        else:  # constant
            self.n, self.m = n, m
        self.salt = rng.randrange(0, 61)
        # walk inner -> outer computing kinds
        N = self.n
        cur_in = None   # (scalar, N, is_vector)
        cur_out = None  # (scalar, M, is_ref)
        ext = None
        for l in reversed(self.layers):
            k = l["kind"]
            lvl = l["level"]
            if k == "array":
                length = None  # decided by the order layer above (or here if bare)
                l["len"] = rng.randrange(1, 40) if len(self.layers) == 1 else None
                cur_in, cur_out = ("size_t", 1, False), (self.store, self.m, True)
            elif k == "identity1":
                cur_in, cur_out = ("size_t", 1, True), ("size_t", 1, False)
            elif k == "identity":
                t = self.real if lvl == "r" else self.idx
                if lvl == "i" and any(x == "linear" for x in kinds):
                    self.ok = False  # linear needs a floating value below it
                cur_in, cur_out = (t, N, True), (t, N, False)
            elif k == "constant":
                t = self.real if lvl == "r" else self.idx
                l["value"] = [rng.randrange(-6, 12) + rng.choice([0, 0.5]) for _ in range(self.m)]
                cur_in, cur_out = (t, N, True), (self.store, self.m, False)
            elif k in ORDER:
                hi = 5 if N <= 2 else (4 if N == 3 else 3)
                ext = [rng.randrange(2, hi + 1) for _ in range(N)]
                l["ext"] = ext
                below = self.layers[self.layers.index(l) + 1]
                if k == "strided":
                    ln = 1
                    for e in ext:
                        ln *= e
                else:
                    side = 1
                    while side < max(ext):
                        side *= 2
                    ln = side ** N
                if below["kind"] == "array":
                    below["len"] = ln
                l["bmi2"] = k == "morton_t"
                cur_in = (self.idx, N, True)
                # cur_out unchanged (store's)
            elif k in INTERP:
                l["index"] = cur_in[0]
                l["real"] = self.real
                # half of the float-coordinate interpolators are spelled the way users spell them: with the
                # DEFAULT coordinate type (float) rather than an explicit one
                l["default_coord"] = self.real == "float" and rng.random() < 0.5
                if k == "linear":
                    if cur_out[0] not in REALS:
                        self.ok = False
                    cur_out = (cur_out[0], cur_out[1], False)
                cur_in = (self.real, N, True)
            elif k == "clamp":
                t = cur_in[0]
                lo, hi = self._box(rng, t, ext, N, below_is_linear=self._next_kind(l) == "linear")
                l["lo"], l["hi"] = lo, hi
            elif k == "backup":
                t = cur_in[0]
                lo, hi = self._box(rng, t, ext, N, below_is_linear=self._next_kind(l) == "linear")
                l["lo"], l["hi"] = lo, hi
                if cur_out[0] in ("unsigned", "size_t"):
                    l["default"] = [1000 + j + rng.randrange(0, 5) for j in range(cur_out[1])]
                else:
                    l["default"] = [-100 - j - rng.randrange(0, 5) for j in range(cur_out[1])]
                cur_out = (cur_out[0], cur_out[1], False)
            elif k == "shuffle":
                p = list(range(N))
                rng.shuffle(p)
                if N > 1 and p == list(range(N)):
                    p = p[1:] + p[:1]
                l["perm"] = p
            elif k == "cast":
                if cur_out[0] in REALS:
                    tgt = rng.choice(["float", "double", "int"])
                else:
                    tgt = rng.choice(["float", "double", "long"])
                if lvl == "i" and "linear" in kinds and kinds.index("linear") < self.layers.index(l) and tgt not in REALS:
                    tgt = "double"
                l["target"] = tgt
                cur_out = (tgt, cur_out[1], False)
            elif k == "deref":
                cur_out = (cur_out[0], cur_out[1], False)
            elif k == "affine":
                t = cur_in[0]
                l["matrix"] = self._matrix(rng, t, N)
            l["in"] = cur_in
            l["out"] = cur_out
            if cur_in is not None and not cur_in[2] and k in WRAP + INTERP:
                self.ok = False
        self.top_in = self.layers[0]["in"]
        self.top_out = self.layers[0]["out"]
        # linear somewhere above an integer-valued primitive that slipped through
        for i, l in enumerate(self.layers):
            if l["kind"] == "linear" and self.layers[i + 1]["out"][0] not in REALS:
                self.ok = False

    def _next_kind(self, l):
        i = self.layers.index(l)
        return self.layers[i + 1]["kind"] if i + 1 < len(self.layers) else None

    def _box(self, rng, t, ext, N, below_is_linear):
        lo, hi = [], []
        for k in range(N):
            top = (ext[k] - 1) if ext else 6
            if t in REALS:
                a = rng.randrange(0, 4 * top + 1) / 4.0
                b = rng.randrange(int(4 * a), 4 * top + 1) / 4.0
                if below_is_linear and ext:
                    b = min(b, top - 0.25)
                    a = min(a, b)
                if rng.random() < 0.3:
                    a = -1.5 if not ext else 0.0
            else:
                a = rng.randrange(0, top + 1)
                b = rng.randrange(a, top + 1)
                if t == "int" and not ext and rng.random() < 0.4:
                    a = -rng.randrange(1, 4)
            lo.append(a)
            hi.append(b)
        return lo, hi

    def _matrix(self, rng, t, N):
        """entries in {-1,0,1,2} (non-negative for unsigned types), translation a multiple of 1/4:
        coordinates stay multiples of 1/4 through any number of affine layers"""
        rows = []
        style = rng.randrange(4)
        perm = list(range(N))
        rng.shuffle(perm)
        for i in range(N):
            row = []
            for j in range(N):
                if style == 0:
                    v = 1 if j == i else 0
                elif style == 1:
                    v = 1 if j == perm[i] else 0
                elif style == 2:
                    v = rng.choice([0, 1, 1, 2]) if j == i else rng.choice([0, 0, 1])
                else:
                    v = rng.choice([-1, 0, 1, 1, 2]) if t in REALS + ["int"] else rng.choice([0, 1, 1])
                row.append(v)
            if t in REALS:
                tr = rng.randrange(-8, 9) / 4.0
            elif t == "int":
                tr = rng.randrange(-2, 3)
            else:
                tr = rng.randrange(0, 3)
            row.append(tr)
            rows.append(row)
        return rows

    def other(self):
        """a stack of exactly the same TYPES with other configuration VALUES in every layer that has any (boxes pushed
        outwards, other defaults, matrices, constants and extents): what an existing field of this type may hold when
        another one is assigned over it.  Deterministic in the stack's own parameters."""
        import copy
        o = copy.deepcopy(self)
        rng = random.Random("other:" + repr([(l["kind"], l.get("ext"), l.get("lo"), l.get("matrix")) for l in self.layers]) + str(self.salt))
        N = self.n
        ext = None
        for idx in range(len(o.layers) - 1, -1, -1):
            l = o.layers[idx]
            k = l["kind"]
            if k == "array" and len(o.layers) == 1:
                l["len"] = l["len"] + 1 + rng.randrange(0, 9)
            elif k == "constant":
                l["value"] = [v + 1 + rng.randrange(0, 3) for v in l["value"]]
            elif k in ORDER:
                ext = [e + 1 + rng.randrange(0, 3) for e in l["ext"]]   # strictly larger on every axis
                l["ext"] = ext
                below = o.layers[idx + 1]
                if k == "strided":
                    ln = 1
                    for e in ext:
                        ln *= e
                else:
                    side = 1
                    while side < max(ext):
                        side *= 2
                    ln = side ** N
                if below["kind"] == "array":
                    below["len"] = ln
            elif k in ("clamp", "backup"):
                t = l["in"][0]
                step = 0.25 if t in REALS else 1
                # a wider box on the upper side (and a different lower bound where the type allows one)
                l["hi"] = [h + step * (1 + rng.randrange(0, 8)) + (8 if not ext else 0) for h in l["hi"]]
                l["lo"] = [max(0, a - step * rng.randrange(0, 3)) if t in ("unsigned", "size_t") else a - step * rng.randrange(0, 3) for a in l["lo"]]
                if k == "backup":
                    l["default"] = [d + 7 + rng.randrange(0, 3) for d in l["default"]]
            elif k == "affine":
                t = l["in"][0]
                m = self._matrix(rng, t, len(l["matrix"]))
                if m == l["matrix"]:
                    m[0][-1] = m[0][-1] + 1
                l["matrix"] = m
        return o

    # -------------------------------------------------------------- derived stacks
    def retype(self):
        """recompute in/out kinds (inner -> outer) from the stored parameters; sets self.ok"""
        self.ok = True
        N = self.n
        cur_in = cur_out = None
        kinds = [l["kind"] for l in self.layers]
        for l in reversed(self.layers):
            k, lvl = l["kind"], l["level"]
            if k == "array":
                cur_in, cur_out = ("size_t", 1, False), (self.store, self.m, True)
            elif k == "identity1":
                cur_in, cur_out = ("size_t", 1, True), ("size_t", 1, False)
            elif k == "identity":
                t = self.real if lvl == "r" else self.idx
                cur_in, cur_out = (t, N, True), (t, N, False)
            elif k == "constant":
                t = self.real if lvl == "r" else self.idx
                cur_in, cur_out = (t, N, True), (self.store, self.m, False)
            elif k in ORDER:
                cur_in = (self.idx, N, True)
            elif k in INTERP:
                l["index"] = cur_in[0]
                l["real"] = self.real
                if k == "linear":
                    if cur_out[0] not in REALS:
                        self.ok = False
                    cur_out = (cur_out[0], cur_out[1], False)
                cur_in = (self.real, N, True)
            elif k == "backup":
                cur_out = (cur_out[0], cur_out[1], False)
            elif k == "cast":
                cur_out = (l["target"], cur_out[1], False)
            elif k == "deref":
                cur_out = (cur_out[0], cur_out[1], False)
            l["in"], l["out"] = cur_in, cur_out
        self.top_in, self.top_out = self.layers[0]["in"], self.layers[0]["out"]
        return self

    def variant(self, swap_interp=False, swap_store=False):
        """the same stack with the other interpolation method and/or the other storage precision"""
        import copy
        v = copy.deepcopy(self)
        if swap_interp:
            for l in v.layers:
                if l["kind"] in INTERP:
                    l["kind"] = "nn" if l["kind"] == "linear" else "linear"
        if swap_store:
            v.store = "double" if v.store == "float" else "float"
        v.retype()
        # a cast to an integer type below `linear` is ill-kinded
        for i, l in enumerate(v.layers):
            if l["kind"] == "linear" and v.layers[i + 1]["out"][0] not in REALS:
                v.ok = False
        v.tagnote = ("interp" if swap_interp else "") + ("+store" if swap_store else "")
        return v

    def partner(self):
        """a compatible stack in the sense of C05: the same layers with another storage order (and the other
        interpolation method); only for the family the library converts: affine / interpolator / order / array"""
        import copy
        kinds = [l["kind"] for l in self.layers]
        if not self.has_array() or not any(k in ORDER for k in kinds):
            return None
        if any(k not in ("affine", "linear", "nn", "array") + tuple(ORDER) for k in kinds):
            return None
        v = copy.deepcopy(self)
        for i, l in enumerate(v.layers):
            if l["kind"] in ORDER:
                if l["kind"] == "strided":
                    l["kind"] = "hilbert" if (self.n == 2 and self.salt % 2) else ("morton_t" if self.salt % 3 else "morton_f")
                else:
                    l["kind"] = "strided"
                l["bmi2"] = l["kind"] == "morton_t"
                ext = l["ext"]
                if l["kind"] == "strided":
                    ln = 1
                    for e in ext:
                        ln *= e
                else:
                    side = 1
                    while side < max(ext):
                        side *= 2
                    ln = side ** len(ext)
                v.layers[i + 1]["len"] = ln
            elif l["kind"] in INTERP:
                l["kind"] = "nn" if l["kind"] == "linear" else "linear"
        # every other partner also stores the other precision: the re-layout copies convert component-wise
        if (self.salt // 2) % 2 == 0:
            v.store = "double" if v.store == "float" else "float"
        v.retype()
        return v if v.ok else None

    def view_bytes(self):
        """upper estimate of sizeof(field_view): field_view rejects storage above 256 bytes"""
        size = {"float": 4, "double": 8, "int": 4, "unsigned": 4, "size_t": 8, "long": 8}
        total = 0
        for l in self.layers:
            k = l["kind"]
            if k == "affine":
                total += l["in"][1] * (l["in"][1] + 1) * size[l["in"][0]]
            elif k == "clamp":
                total += 2 * l["in"][1] * size[l["in"][0]]
            elif k == "backup":
                total += 2 * l["in"][1] * size[l["in"][0]] + l["out"][1] * size[l["out"][0]]
            elif k in ORDER:
                total += 8 * l["in"][1]
            elif k == "array":
                total += 16
            elif k == "constant":
                total += l["out"][1] * size[l["out"][0]]
            else:
                total += 1
            total = (total + 7) // 8 * 8
        return total

    def sibling_order(self):
        """the same stack over a DIFFERENT storage order (different on-disk tag, identical payload layout):
        each must reject the other's files"""
        import copy
        if not any(l["kind"] in ORDER for l in self.layers):
            return None
        v = copy.deepcopy(self)
        for i, l in enumerate(v.layers):
            if l["kind"] in ORDER:
                if l["kind"] == "strided":
                    l["kind"] = "morton_t"
                elif l["kind"] in ("morton_t", "morton_f"):
                    l["kind"] = "hilbert" if self.n == 2 else "strided"
                else:
                    l["kind"] = "morton_f"
                l["bmi2"] = l["kind"] == "morton_t"
                ext = l["ext"]
                if l["kind"] == "strided":
                    ln = 1
                    for e in ext:
                        ln *= e
                else:
                    side = 1
                    while side < max(ext):
                        side *= 2
                    ln = side ** len(ext)
                if v.layers[i + 1]["kind"] == "array":
                    v.layers[i + 1]["len"] = ln
        v.retype()
        return v if v.ok else None

    def make_exotic(self, rng):
        """IO checks only (no lookups): give real-typed configuration members values that do not survive a detour
        through another precision or a value-level normalisation: non-dyadic, float-subnormal, negative zero, huge"""
        def ex(v, t):
            if t not in REALS:
                return v
            pick = rng.randrange(6)
            if pick == 0:
                return v + 0.1
            if pick == 1:
                return -0.0
            if pick == 2:
                return 1e-40 if t == "float" else 1e-310
            if pick == 3:
                return 3.0e38 if t == "float" else 1.0e300
            if pick == 4:
                return -(v + 1.0) / 3.0
            return v
        for l in self.layers:
            k = l["kind"]
            if k in ("clamp", "backup"):
                l["lo"] = [ex(v, l["in"][0]) for v in l["lo"]]
                l["hi"] = [ex(v, l["in"][0]) for v in l["hi"]]
            if k == "backup":
                l["default"] = [ex(v, l["out"][0]) for v in l["default"]]
            if k == "constant":
                l["value"] = [ex(v, l["out"][0]) for v in l["value"]]
            if k == "affine":
                l["matrix"] = [[ex(v, l["in"][0]) for v in row] for row in l["matrix"]]
        self.exotic = True
        return self

    def has_interp(self):
        return any(l["kind"] in INTERP for l in self.layers)

    def store_matters(self):
        return self.layers[-1]["kind"] == "array"

    def io_signature(self):
        """what the byte stream of a dump looks like, up to the freedoms the format grants (float width of
        array payloads, untagged layers): two stacks with equal signatures read each other's files"""
        size = {"float": 4, "double": 8, "int": 4, "unsigned": 4, "size_t": 8, "long": 8}
        sig = []
        for l in self.layers:
            k = l["kind"]
            if k == "affine":
                sig.append(("affine", l["in"][1] * (l["in"][1] + 1) * size[l["in"][0]]))
            elif k == "clamp":
                sig.append(("clamp", 2 * l["in"][1] * size[l["in"][0]]))
            elif k == "backup":
                sig.append(("backup", 2 * l["in"][1] * size[l["in"][0]], l["out"][1] * size[l["out"][0]]))
            elif k == "strided":
                sig.append(("strided", l["in"][1]))
            elif k in ("morton_t", "morton_f"):
                sig.append(("morton", l["in"][1]))
            elif k == "hilbert":
                sig.append(("hilbert", 2))
            elif k == "array":
                sig.append(("array", l["out"][1]))
            elif k == "constant":
                sig.append(("constant", l["out"][1] * size[l["out"][0]]))
            elif k in ("identity", "identity1"):
                sig.append(("identity",))
        return tuple(sig)

    def fmt_descriptor(self):
        """for the independent format parser (gen/fmt.py): tagged layers outer -> inner with payload layout"""
        size = {"float": 4, "double": 8, "int": 4, "unsigned": 4, "size_t": 8, "long": 8}
        out = []
        for l in self.layers:
            k = l["kind"]
            if k == "affine":
                out.append({"tag": 0xAB020000, "payload": l["in"][1] * (l["in"][1] + 1) * size[l["in"][0]]})
            elif k == "clamp":
                out.append({"tag": 0xAB020002, "payload": 2 * l["in"][1] * size[l["in"][0]]})
            elif k == "backup":
                out.append({"tag": 0xAB020001, "payload": 2 * l["in"][1] * size[l["in"][0]] + l["out"][1] * size[l["out"][0]]})
            elif k == "strided":
                out.append({"tag": 0xAB020010, "payload": 8 * l["in"][1], "extents": l["ext"]})
            elif k in ("morton_t", "morton_f"):
                out.append({"tag": 0xAB020006, "payload": 8 * l["in"][1], "extents": l["ext"]})
            elif k == "hilbert":
                out.append({"tag": 0xAB020004, "payload": 16, "extents": l["ext"]})
            elif k == "array":
                out.append({"tag": 0xAB010000, "array": True, "m": l["out"][1], "len": l["len"], "width": size[l["out"][0]]})
            elif k == "constant":
                out.append({"tag": 0xAB010001, "payload": l["out"][1] * size[l["out"][0]], "leaf": True})
            elif k in ("identity", "identity1"):
                out.append({"tag": 0xAB010002, "payload": 0, "leaf": True})
        return out

    # -------------------------------------------------------------- C++ emission
    def depth(self):
        return len(self.layers)

    def name(self):
        """unique per parameterisation: kinds, types and a digest of every configuration value"""
        import hashlib as _h
        sig = repr([(l["kind"], l["level"], l.get("ext"), l.get("lo"), l.get("hi"), l.get("default"), l.get("perm"), l.get("target"),
                     l.get("matrix"), l.get("value"), l.get("len"), l.get("default_coord"), l.get("in"), l.get("out")) for l in self.layers])
        return "/".join(l["kind"] for l in self.layers) + " N=%d M=%d idx=%s real=%s store=%s #%s" % (
            self.n, self.m, self.idx, self.real, self.store, _h.sha256(sig.encode()).hexdigest()[:8])

    def type_aliases(self):
        """returns list of 'using Bk = ...;' innermost first; B0 is the whole stack"""
        d = self.depth()
        lines = []
        for i in range(d - 1, -1, -1):
            l = self.layers[i]
            k = l["kind"]
            inner = "B%d" % (i + 1)
            if k == "array":
                ty = "cb::array<%s>" % vecd(l["out"][0], l["out"][1])
            elif k == "identity1":
                ty = "cb::identity<cv::size1>"
            elif k == "identity":
                ty = "cb::identity<%s>" % vecd(l["in"][0], l["in"][1])
            elif k == "constant":
                ty = "cb::constant<%s, %s>" % (vecd(l["in"][0], l["in"][1]), vecd(l["out"][0], l["out"][1]))
            elif k == "strided":
                ty = "cb::strided<%s, %s>" % (vecd(l["in"][0], l["in"][1]), inner)
            elif k in ("morton_t", "morton_f"):
                ty = "cb::morton<%s, %s, %s>" % (vecd(l["in"][0], l["in"][1]), inner, "true" if l["bmi2"] else "false")
            elif k == "hilbert":
                ty = "cb::hilbert<%s, %s>" % (vecd(l["in"][0], l["in"][1]), inner)
            elif k == "linear":
                ty = "cb::linear<%s>" % inner if l.get("default_coord") else "cb::linear<%s, %s>" % (inner, vecd(l["real"], l["in"][1]))
            elif k == "nn":
                ty = "cb::nearest_neighbour<%s>" % inner if l.get("default_coord") else "cb::nearest_neighbour<%s, %s>" % (inner, vecd(l["real"], l["in"][1]))
            elif k == "clamp":
                ty = "cb::clamp<%s>" % inner
            elif k == "backup":
                ty = "cb::backup<%s>" % inner
            elif k == "shuffle":
                ty = "cb::shuffle<%s, std::index_sequence<%s>>" % (inner, ", ".join(str(p) for p in l["perm"]))
            elif k == "cast":
                ty = "cb::covariant_cast<%s, %s>" % (CXX[l["target"]], inner)
            elif k == "deref":
                ty = "cb::dereference<%s>" % inner
            elif k == "affine":
                ty = "cb::affine<%s>" % inner
            else:
                raise KeyError(k)
            l["cxx"] = ty
            lines.append("using B%d = %s;" % (i, ty))
        return lines

    def cfg_expr(self, i):
        l = self.layers[i]
        k = l["kind"]
        T = "typename B%d::configuration_t" % i
        if k == "array":
            return "covfie::utility::nd_size<1>{%dul}" % l["len"]
        if k in ("identity", "identity1", "shuffle", "cast", "deref", "linear", "nn"):
            return "std::monostate{}"
        if k == "constant":
            return "%s{%s}" % (T, ", ".join(lit(v, l["out"][0]) for v in l["value"]))
        if k in ORDER:
            return "%s{%s}" % (T, ", ".join("%dul" % e for e in l["ext"]))
        if k == "clamp":
            t = l["in"][0]
            return "%s{{%s}, {%s}}" % (T, ", ".join(lit(v, t) for v in l["lo"]), ", ".join(lit(v, t) for v in l["hi"]))
        if k == "backup":
            t = l["in"][0]
            return "%s{{%s}, {%s}, {%s}}" % (T, ", ".join(lit(v, t) for v in l["lo"]), ", ".join(lit(v, t) for v in l["hi"]),
                                            ", ".join(lit(v, l["out"][0]) for v in l["default"]))
        if k == "affine":
            t = l["in"][0]
            body = " ".join("m(%d, %d) = %s;" % (i_, j_, lit(v, t)) for i_, row in enumerate(l["matrix"]) for j_, v in enumerate(row))
            return "[] { %s m; %s return m; }()" % (T, body)
        raise KeyError(k)

    def cfg_check(self, i, got):
        """C++ boolean expression: configuration `got` of layer i equals what was passed in"""
        l = self.layers[i]
        k = l["kind"]
        if k == "array":
            return "(%s[0] == %dul)" % (got, l["len"])
        if k in ("identity", "identity1", "shuffle", "cast", "deref", "linear", "nn"):
            return "(std::is_same_v<std::decay_t<decltype(%s)>, std::monostate>)" % got
        if k == "constant":
            return "(" + " && ".join("%s[%d] == %s" % (got, j, lit(v, l["out"][0])) for j, v in enumerate(l["value"])) + ")"
        if k in ORDER:
            return "(" + " && ".join("%s[%d] == %dul" % (got, j, e) for j, e in enumerate(l["ext"])) + ")"
        if k == "clamp":
            t = l["in"][0]
            return "(" + " && ".join(["%s.min[%d] == %s" % (got, j, lit(v, t)) for j, v in enumerate(l["lo"])] +
                                     ["%s.max[%d] == %s" % (got, j, lit(v, t)) for j, v in enumerate(l["hi"])]) + ")"
        if k == "backup":
            t = l["in"][0]
            return "(" + " && ".join(["%s.min[%d] == %s" % (got, j, lit(v, t)) for j, v in enumerate(l["lo"])] +
                                     ["%s.max[%d] == %s" % (got, j, lit(v, t)) for j, v in enumerate(l["hi"])] +
                                     ["%s.default_value[%d] == %s" % (got, j, lit(v, l["out"][0])) for j, v in enumerate(l["default"])]) + ")"
        if k == "affine":
            t = l["in"][0]
            return "(" + " && ".join("%s(%d, %d) == %s" % (got, i_, j_, lit(v, t)) for i_, row in enumerate(l["matrix"]) for j_, v in enumerate(row)) + ")"
        raise KeyError(k)

    def model_expr(self):
        expr = None
        for i in range(self.depth() - 1, -1, -1):
            l = self.layers[i]
            k = l["kind"]
            if k == "array":
                expr = "model::array(%d, %d, [](uint64_t i, uint64_t j) { return (model::Q)fillval(i, j, %d); })" % (l["len"], l["out"][1], self.salt)
            elif k in ("identity", "identity1"):
                expr = "model::identity()"
            elif k == "constant":
                expr = "model::constant({%s})" % ", ".join(qlit(v) for v in l["value"])
            elif k == "strided":
                expr = "model::strided({%s}, %s)" % (", ".join(str(e) for e in l["ext"]), expr)
            elif k in ("morton_t", "morton_f"):
                expr = "model::morton({%s}, %s)" % (", ".join(str(e) for e in l["ext"]), expr)
            elif k == "hilbert":
                expr = "model::hilbert({%s}, %s)" % (", ".join(str(e) for e in l["ext"]), expr)
            elif k == "clamp":
                expr = "model::clamp({%s}, {%s}, %s)" % (", ".join(qlit(v) for v in l["lo"]), ", ".join(qlit(v) for v in l["hi"]), expr)
            elif k == "backup":
                expr = "model::backup({%s}, {%s}, {%s}, %s)" % (", ".join(qlit(v) for v in l["lo"]), ", ".join(qlit(v) for v in l["hi"]),
                                                             ", ".join(qlit(v) for v in l["default"]), expr)
            elif k == "shuffle":
                expr = "model::shuffle({%s}, %s)" % (", ".join(str(p) for p in l["perm"]), expr)
            elif k == "cast":
                expr = "model::cast(%s, %s)" % (MS[l["target"]], expr)
            elif k == "deref":
                expr = "model::deref(%s)" % expr
            elif k == "affine":
                rows = ", ".join("{%s}" % ", ".join(qlit(v) for v in row) for row in l["matrix"])
                expr = "model::affine({%s}, %s, %s)" % (rows, MS[l["in"][0]], expr)
            elif k == "nn":
                expr = "model::nn(%s, %s)" % (MS[l["index"]], expr)
            elif k == "linear":
                expr = "model::linear(%s, %s)" % (MS[l["index"]], expr)
            else:
                raise KeyError(k)
        return expr

    def has_array(self):
        return self.layers[-1]["kind"] == "array"

    def backend_chain(self, i, obj="f.backend()"):
        return obj + ".get_backend()" * i

    def order_model_expr(self):
        """model of this stack's storage-order layer over identity: maps a lattice coordinate to the flat index"""
        for l in self.layers:
            if l["kind"] in ORDER:
                fn = {"strided": "strided", "morton_t": "morton", "morton_f": "morton", "hilbert": "hilbert"}[l["kind"]]
                return "model::%s({%s}, model::identity())" % (fn, ", ".join(str(e) for e in l["ext"]))
        return None

    def emit(self, sid, suffix="", partner=None, like=None):
        """C++ struct Z<sid><suffix> describing this stack; `partner` names a compatible stack's struct;
        `like` is the stack whose lattice values this one must hold (for conversions)"""
        d = self.depth()
        L = []
        L.append("struct Z%d%s {" % (sid, suffix))
        if partner:
            L.append("    static constexpr bool has_partner = true;")
            L.append("    using partner = %s;" % partner)
        else:
            L.append("    static constexpr bool has_partner = false;")
        for a in self.type_aliases():
            L.append("    " + a)
        L.append("    using backend_t = B0;")
        L.append("    using field_t = covfie::field<B0>;")
        L.append("    static constexpr std::size_t depth = %d;" % d)
        L.append("    static constexpr bool has_array = %s;" % ("true" if self.has_array() else "false"))
        L.append("    static constexpr bool serialisable = true;")
        L.append("    static const char * name() { return %s; }" % cstr(self.name()))
        L.append("    static const char * type_string() { return %s; }" % cstr(self.layers[0]["cxx"] if d == 1 else self.full_type()))
        L.append("    static auto pack() { return covfie::make_parameter_pack(%s); }" % ", ".join(self.cfg_expr(i) for i in range(d)))
        L.append("    static field_t make() { return field_t(pack()); }")
        oth = self.other()
        L.append("    // a field of the same type holding OTHER configuration values in every layer (boxes, defaults, matrices, extents)")
        L.append("    template <int = 0> static field_t make_other() { return field_t(covfie::make_parameter_pack(%s)); }" % ", ".join(oth.cfg_expr(i) for i in range(d)))
        L.append("    static field_t make_via_helper() { return field_t(covfie::make_parameter_pack_for<field_t>(%s)); }" % ", ".join(self.cfg_expr(i) for i in range(d)))
        reb = [self.backend_chain(i) + ".get_configuration()" for i in range(d - 1)]
        if self.has_array():
            reb.append("typename B%d::owning_data_t(%s)" % (d - 1, self.backend_chain(d - 1)))
        else:
            reb.append(self.backend_chain(d - 1) + ".get_configuration()")
        L.append("    // a new field from the configurations the old one reports (and a copy of its innermost storage)")
        L.append("    static field_t rebuild(const field_t & f) { return field_t(covfie::make_parameter_pack(%s)); }" % ", ".join(reb))
        # further ways of rebuilding from what the field reports: each layer's own constructors
        forms = []
        FORM_A = ("affine", "backup", "clamp", "hilbert", "morton_t", "morton_f", "strided")      # (const configuration_t &, inner owning data &&)
        FORM_B = ("backup", "cast", "deref", "linear", "shuffle")                                 # (configuration_t, inner constructor arguments by value...)
        for k in range(d):
            kind = self.layers[k]["kind"]
            outer = [self.backend_chain(i) + ".get_configuration()" for i in range(k)]
            me, cfg = self.backend_chain(k), self.backend_chain(k) + ".get_configuration()"
            pack = lambda last: "return field_t(covfie::make_parameter_pack(%s));" % ", ".join(outer + [last])
            if not (k == d - 1 and self.has_array()):
                forms.append(("layer %d copied whole" % k, pack("typename B%d::owning_data_t(%s)" % (k, me))))
            if k + 1 < d:
                inner = self.backend_chain(k + 1)
                if kind in FORM_A:
                    forms.append(("layer %d from (configuration, inner layer moved in)" % k,
                                  pack("typename B%d::owning_data_t(%s, typename B%d::owning_data_t(%s))" % (k, cfg, k + 1, inner))))
                if kind in FORM_B:
                    forms.append(("layer %d from (configuration, inner layer as an lvalue)" % k,
                                  pack("typename B%d::owning_data_t(%s, %s)" % (k, cfg, inner))))
            if kind in ("strided", "morton_t", "morton_f"):
                both = ", ".join(outer + ["kept"])
                forms.append(("layer %d kept in a named variable, used for two rebuilds (the second returned)" % k,
                              "typename B%d::owning_data_t kept(%s); field_t first(covfie::make_parameter_pack(%s)); (void)first; return field_t(covfie::make_parameter_pack(%s));" % (k, me, both, both)))
                forms.append(("layer %d kept in a named const variable" % k,
                              "const typename B%d::owning_data_t kept(%s); return field_t(covfie::make_parameter_pack(%s));" % (k, me, both)))
        L.append("    static constexpr int rebuild_forms = %d;" % len(forms))
        L.append("    static const char * rebuild_form_name(int i) { static const char * n[] = {%s}; return n[i]; }" % ", ".join(cstr(n) for n, _ in forms + [("", "")]))
        L.append("    template <int I> static field_t rebuild_form(const field_t & f) {")
        for i, (_, body) in enumerate(forms):
            L.append("        %sif constexpr (I == %d) { %s }" % ("else " if i else "", i, body))
        L.append("    }")
        if self.has_array():
            L.append("    using array_t = B%d;" % (d - 1))
            L.append("    static const typename array_t::owning_data_t & storage(const field_t & f) { return %s; }" % self.backend_chain(d - 1))
            L.append("    static constexpr uint64_t array_len = %d, array_m = %d;" % (self.layers[-1]["len"], self.layers[-1]["out"][1]))
            L.append("    static void fill(field_t & f) { typename array_t::non_owning_data_t v(storage(f)); for (uint64_t i = 0; i < array_len; ++i) "
                     "for (uint64_t j = 0; j < array_m; ++j) v.at(i)[j] = (%s)fillval(i, j, %d); }" % (CXX[self.layers[-1]["out"][0]], self.salt))
        else:
            L.append("    static void fill(field_t &) {}")
        L.append("    static model::P make_model() { return %s; }" % self.model_expr())
        if d >= 2 and self.layers[-1]["kind"] == "array" and self.layers[-2]["kind"] == "strided":
            # the row-major layer allocates its own storage when the pack ends with its extents
            head = [self.cfg_expr(i) for i in range(d - 2)]
            L.append("    static constexpr bool has_extents_form = true;")
            L.append("    template <int = 0> static field_t make_from_extents() { return field_t(covfie::make_parameter_pack(%s)); }" % ", ".join(head + [self.cfg_expr(d - 2)]))
            L.append("    template <int = 0> static field_t make_from_named_extents() { typename B%d::configuration_t extents = %s; return field_t(covfie::make_parameter_pack(%s)); }"
                     % (d - 2, self.cfg_expr(d - 2), ", ".join(head + ["extents"])))
        else:
            L.append("    static constexpr bool has_extents_form = false;")
        if like is not None:
            oi = [i for i, l in enumerate(self.layers) if l["kind"] in ORDER][0]
            ext = self.layers[oi]["ext"]
            n = len(ext)
            L.append("    // holds, at every lattice coordinate, the value the original stack holds there")
            L.append("    static void fill_like(field_t & f) {")
            L.append("        model::P idx = %s;" % like.order_model_expr())
            L.append("        typename B%d::non_owning_data_t v(%s);" % (oi, self.backend_chain(oi)))
            L.append("        const uint64_t ext[%d] = {%s}; uint64_t c[%d] = {};" % (n, ", ".join(str(e) for e in ext), n))
            L.append("        for (;;) {")
            L.append("            model::Vec mc(%d); typename B%d::contravariant_input_t::vector_t cc;" % (n, oi))
            L.append("            for (int k = 0; k < %d; ++k) { mc[k] = (model::Q)c[k]; cc[k] = c[k]; }" % n)
            L.append("            uint64_t i = (uint64_t)idx->at(mc).v[0];")
            L.append("            for (uint64_t j = 0; j < array_m; ++j) v.at(cc)[j] = (%s)fillval(i, j, %d);" % (CXX[self.layers[-1]["out"][0]], like.salt))
            L.append("            int k = 0; while (k < %d && ++c[k] >= ext[k]) c[k++] = 0;" % n)
            L.append("            if (k == %d) break;" % n)
            L.append("        }")
            L.append("    }")
        # per-layer configuration read-back
        checks = []
        for i in range(d):
            got = "c%d" % i
            checks.append("        { auto %s = %s.get_configuration(); if (!%s) return %d; }" % (got, self.backend_chain(i), self.cfg_check(i, got), i))
        L.append("    // returns -1 when every layer reports the configuration it was built with, else the index of the first layer that does not")
        L.append("    static int config_mismatch(const field_t & f) {\n%s\n        return -1; }" % "\n".join(checks))
        L.append("};")
        return "\n".join(L)

    def full_type(self):
        # expand aliases innermost-first into a single readable string
        s = {}
        for i in range(self.depth() - 1, -1, -1):
            t = self.layers[i]["cxx"]
            if i + 1 < self.depth():
                t = t.replace("B%d" % (i + 1), s[i + 1])
            s[i] = t
        return s[0].replace("cb::", "").replace("cv::", "").replace("std::", "")


def cstr(s):
    return '"' + s.replace("\\", "\\\\").replace('"', '\\"') + '"'


# ------------------------------------------------------------------ selection
def seq_features(seq):
    """adjacent-pair features for pairwise coverage"""
    b = [base(k) + ("@" + k.split(":")[0] if ":" in k else "") for k in seq]
    f = set()
    f.add(("top", b[0]))
    for x, y in zip(b, b[1:]):
        f.add((x, y))
    return f


def select(seed, tier, limit=None):
    """returns a list of Stack objects"""
    rng = random.Random(seed * 7919 + 17)
    if tier == "quick":
        allseq = sequences(4) + [s for s in sequences(5) if rng.random() < 0.02]
    else:
        # thorough: every kind sequence of depth <= 4 when the cap allows it (otherwise a seeded 80% share of the cap),
        # plus a seeded sample of depth-5 sequences for the rest
        s5 = sequences(5)
        s4 = set(sequences(4))
        deep = [s for s in s5 if s not in s4]
        rng.shuffle(deep)
        cap = limit or 2600
        shallow = sorted(s4)
        if len(shallow) > (cap * 4) // 5:
            rng.shuffle(shallow)
            shallow = shallow[:(cap * 4) // 5]
        allseq = shallow + deep[:max(0, cap - len(shallow))]
    order = list(allseq)
    rng.shuffle(order)
    chosen = []
    if tier == "quick":
        # greedy pairwise cover, then top up
        need = set()
        for s in order:
            need |= seq_features(s)
        covered = set()
        # prefer deeper sequences (more pairs per stack)
        order.sort(key=lambda s: -len(s))
        rng2 = random.Random(seed)
        pool = list(order)
        while covered != need and pool:
            best = max(pool[:400], key=lambda s: len(seq_features(s) - covered))
            if not seq_features(best) - covered:
                rng2.shuffle(pool)
                best = max(pool, key=lambda s: len(seq_features(s) - covered))
                if not seq_features(best) - covered:
                    break
            chosen.append(best)
            covered |= seq_features(best)
            pool.remove(best)
        rng2.shuffle(pool)
        target = limit or 150
        # top up, preferring array-backed stacks (constant backends ignore the coordinate they are given)
        arr = [s for s in pool if s[-1] == "array"]
        oth = [s for s in pool if s[-1] != "array" and base(s[-1]) != "constant"]
        room = max(0, target - len(chosen))
        chosen += arr[:(room * 2) // 3]
        chosen += oth[:room - min(len(arr), (room * 2) // 3)]
    else:
        chosen = order[:limit] if limit else order
    stacks = []
    for ordinal, seq in enumerate(chosen):
        h = int(hashlib.sha256(("%d|%s" % (seed, "/".join(seq))).encode()).hexdigest()[:12], 16)
        for attempt in range(8):
            st = Stack(seq, random.Random(h + attempt), ordinal + attempt)
            if st.ok and st.view_bytes() <= 224:   # a view above 256 bytes is ill-kinded (static_assert in field_view)
                stacks.append(st)
                break
    return stacks


PRELUDE = r'''
#include <cstdint>
#include <type_traits>
#include <utility>
#include <variant>
#include <covfie/core/backend/primitive/array.hpp>
#include <covfie/core/backend/primitive/constant.hpp>
#include <covfie/core/backend/primitive/identity.hpp>
#include <covfie/core/backend/transformer/affine.hpp>
#include <covfie/core/backend/transformer/backup.hpp>
#include <covfie/core/backend/transformer/clamp.hpp>
#include <covfie/core/backend/transformer/covariant_cast.hpp>
#include <covfie/core/backend/transformer/dereference.hpp>
#include <covfie/core/backend/transformer/hilbert.hpp>
#include <covfie/core/backend/transformer/linear.hpp>
#include <covfie/core/backend/transformer/morton.hpp>
#include <covfie/core/backend/transformer/nearest_neighbour.hpp>
#include <covfie/core/backend/transformer/shuffle.hpp>
#include <covfie/core/backend/transformer/strided.hpp>
#include <covfie/core/field.hpp>
#include <covfie/core/field_view.hpp>
#include "model.hpp"
#include "vh.hpp"
namespace cb = covfie::backend;
namespace cv = covfie::vector;
// value stored at flat index i, component j: small integers, not affine in i
static inline int fillval(uint64_t i, uint64_t j, int salt) { return (int)((i * 7 + j * 13 + (uint64_t)salt + (i * i) % 5) % 61) - 20; }
'''


def translation_unit(stacks, first_id, driver_include, driver_call, extra_calls=(), with_partners=False):
    """one TU for a batch of stacks; driver_call is a format string with {Z}; extra_calls are raw statements"""
    parts = [PRELUDE, '#include "%s"' % driver_include]
    ids = []
    for k, st in enumerate(stacks):
        pt = st.partner() if with_partners else None
        if pt is not None:
            parts.append(pt.emit(first_id + k, suffix="p", like=st))
            parts.append(st.emit(first_id + k, partner="Z%dp" % (first_id + k)))
        else:
            parts.append(st.emit(first_id + k))
        ids.append(first_id + k)
    parts.append("int main(int argc, char ** argv) {\n    vh::init(argc, argv);")
    for i in ids:
        if driver_call:
            parts.append("    " + driver_call.format(Z="Z%d" % i))
    for c in extra_calls:
        parts.append("    " + c)
    parts.append("    return vh::finish();\n}")
    return "\n".join(parts)


if __name__ == "__main__":
    import sys
    tier = sys.argv[1] if len(sys.argv) > 1 else "quick"
    ss = select(1, tier)
    print(len(ss), "stacks")
    for s in ss[:20]:
        print(" ", s.name())
    feats = set()
    for s in ss:
        feats |= seq_features(s.seq)
    print(len(feats), "adjacent-pair features covered")
