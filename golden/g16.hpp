// stack description of golden file g16.bin, written by covfie 9bc2998
struct G16 {
    using B3 = cb::array<cv::vector_d<double, 4>>;
    using B2 = cb::morton<cv::vector_d<unsigned, 2>, B3, true>;
    using B1 = cb::affine<B2>;
    using B0 = cb::backup<B1>;
    using backend_t = B0;
    using field_t = covfie::field<B0>;
    static constexpr std::size_t depth = 4;
    static constexpr bool has_array = true;
    static constexpr bool serialisable = true;
    static const char * name() { return "backup/affine/morton_t/array N=2 M=4 idx=unsigned real=float store=double"; }
    static const char * type_string() { return "backup<affine<morton<vector_d<unsigned, 2>, array<vector_d<double, 4>>, true>>>"; }
    static auto pack() { return covfie::make_parameter_pack(typename B0::configuration_t{{0u, 1u}, {1u, 1u}, {-103.0, -104.0, -104.0, -106.0}}, [] { typename B1::configuration_t m; m(0, 0) = 2u; m(0, 1) = 1u; m(0, 2) = 0u; m(1, 0) = 0u; m(1, 1) = 1u; m(1, 2) = 2u; return m; }(), typename B2::configuration_t{2ul, 2ul}, covfie::utility::nd_size<1>{4ul}); }
    static field_t make() { return field_t(pack()); }
    static field_t make_via_helper() { return field_t(covfie::make_parameter_pack_for<field_t>(typename B0::configuration_t{{0u, 1u}, {1u, 1u}, {-103.0, -104.0, -104.0, -106.0}}, [] { typename B1::configuration_t m; m(0, 0) = 2u; m(0, 1) = 1u; m(0, 2) = 0u; m(1, 0) = 0u; m(1, 1) = 1u; m(1, 2) = 2u; return m; }(), typename B2::configuration_t{2ul, 2ul}, covfie::utility::nd_size<1>{4ul})); }
    // a new field from the configurations the old one reports (and a copy of its innermost storage)
    static field_t rebuild(const field_t & f) { return field_t(covfie::make_parameter_pack(f.backend().get_configuration(), f.backend().get_backend().get_configuration(), f.backend().get_backend().get_backend().get_configuration(), typename B3::owning_data_t(f.backend().get_backend().get_backend().get_backend()))); }
    using array_t = B3;
    static const typename array_t::owning_data_t & storage(const field_t & f) { return f.backend().get_backend().get_backend().get_backend(); }
    static constexpr uint64_t array_len = 4, array_m = 4;
    static void fill(field_t & f) { typename array_t::non_owning_data_t v(storage(f)); for (uint64_t i = 0; i < array_len; ++i) for (uint64_t j = 0; j < array_m; ++j) v.at(i)[j] = (double)fillval(i, j, 2); }
    static model::P make_model() { return model::backup({(model::Q)0.0, (model::Q)1.0}, {(model::Q)1.0, (model::Q)1.0}, {(model::Q)-103.0, (model::Q)-104.0, (model::Q)-104.0, (model::Q)-106.0}, model::affine({{(model::Q)2.0, (model::Q)1.0, (model::Q)0.0}, {(model::Q)0.0, (model::Q)1.0, (model::Q)2.0}}, model::S_UNSIGNED, model::morton({2, 2}, model::array(4, 4, [](uint64_t i, uint64_t j) { return (model::Q)fillval(i, j, 2); })))); }
    // returns -1 when every layer reports the configuration it was built with, else the index of the first layer that does not
    static int config_mismatch(const field_t & f) {
        { auto c0 = f.backend().get_configuration(); if (!(c0.min[0] == 0u && c0.min[1] == 1u && c0.max[0] == 1u && c0.max[1] == 1u && c0.default_value[0] == -103.0 && c0.default_value[1] == -104.0 && c0.default_value[2] == -104.0 && c0.default_value[3] == -106.0)) return 0; }
        { auto c1 = f.backend().get_backend().get_configuration(); if (!(c1(0, 0) == 2u && c1(0, 1) == 1u && c1(0, 2) == 0u && c1(1, 0) == 0u && c1(1, 1) == 1u && c1(1, 2) == 2u)) return 1; }
        { auto c2 = f.backend().get_backend().get_backend().get_configuration(); if (!(c2[0] == 2ul && c2[1] == 2ul)) return 2; }
        { auto c3 = f.backend().get_backend().get_backend().get_backend().get_configuration(); if (!(c3[0] == 4ul)) return 3; }
        return -1; }
};
