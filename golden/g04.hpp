// stack description of golden file g04.bin, written by covfie 9bc2998
struct G4 {
    using B4 = cb::identity<cv::size1>;
    using B3 = cb::morton<cv::vector_d<std::size_t, 2>, B4, true>;
    using B2 = cb::nearest_neighbour<B3, cv::vector_d<double, 2>>;
    using B1 = cb::clamp<B2>;
    using B0 = cb::affine<B1>;
    using backend_t = B0;
    using field_t = covfie::field<B0>;
    static constexpr std::size_t depth = 5;
    static constexpr bool has_array = false;
    static constexpr bool serialisable = true;
    static const char * name() { return "affine/clamp/nn/morton_t/identity1 N=2 M=1 idx=size_t real=double store=double"; }
    static const char * type_string() { return "affine<clamp<nearest_neighbour<morton<vector_d<size_t, 2>, identity<size1>, true>, vector_d<double, 2>>>>"; }
    static auto pack() { return covfie::make_parameter_pack([] { typename B0::configuration_t m; m(0, 0) = 1.0; m(0, 1) = 0.0; m(0, 2) = 1.75; m(1, 0) = 0.0; m(1, 1) = 1.0; m(1, 2) = 2.0; return m; }(), typename B1::configuration_t{{1.0, 0.0}, {1.0, 1.0}}, std::monostate{}, typename B3::configuration_t{2ul, 2ul}, std::monostate{}); }
    static field_t make() { return field_t(pack()); }
    static field_t make_via_helper() { return field_t(covfie::make_parameter_pack_for<field_t>([] { typename B0::configuration_t m; m(0, 0) = 1.0; m(0, 1) = 0.0; m(0, 2) = 1.75; m(1, 0) = 0.0; m(1, 1) = 1.0; m(1, 2) = 2.0; return m; }(), typename B1::configuration_t{{1.0, 0.0}, {1.0, 1.0}}, std::monostate{}, typename B3::configuration_t{2ul, 2ul}, std::monostate{})); }
    // a new field from the configurations the old one reports (and a copy of its innermost storage)
    static field_t rebuild(const field_t & f) { return field_t(covfie::make_parameter_pack(f.backend().get_configuration(), f.backend().get_backend().get_configuration(), f.backend().get_backend().get_backend().get_configuration(), f.backend().get_backend().get_backend().get_backend().get_configuration(), f.backend().get_backend().get_backend().get_backend().get_backend().get_configuration())); }
    static void fill(field_t &) {}
    static model::P make_model() { return model::affine({{(model::Q)1.0, (model::Q)0.0, (model::Q)1.75}, {(model::Q)0.0, (model::Q)1.0, (model::Q)2.0}}, model::S_DOUBLE, model::clamp({(model::Q)1.0, (model::Q)0.0}, {(model::Q)1.0, (model::Q)1.0}, model::nn(model::S_SIZE, model::morton({2, 2}, model::identity())))); }
    // returns -1 when every layer reports the configuration it was built with, else the index of the first layer that does not
    static int config_mismatch(const field_t & f) {
        { auto c0 = f.backend().get_configuration(); if (!(c0(0, 0) == 1.0 && c0(0, 1) == 0.0 && c0(0, 2) == 1.75 && c0(1, 0) == 0.0 && c0(1, 1) == 1.0 && c0(1, 2) == 2.0)) return 0; }
        { auto c1 = f.backend().get_backend().get_configuration(); if (!(c1.min[0] == 1.0 && c1.min[1] == 0.0 && c1.max[0] == 1.0 && c1.max[1] == 1.0)) return 1; }
        { auto c2 = f.backend().get_backend().get_backend().get_configuration(); if (!(std::is_same_v<std::decay_t<decltype(c2)>, std::monostate>)) return 2; }
        { auto c3 = f.backend().get_backend().get_backend().get_backend().get_configuration(); if (!(c3[0] == 2ul && c3[1] == 2ul)) return 3; }
        { auto c4 = f.backend().get_backend().get_backend().get_backend().get_backend().get_configuration(); if (!(std::is_same_v<std::decay_t<decltype(c4)>, std::monostate>)) return 4; }
        return -1; }
};
