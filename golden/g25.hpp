// stack description of golden file g25.bin, written by covfie 9bc2998
struct G25 {
    using B3 = cb::array<cv::vector_d<double, 3>>;
    using B2 = cb::strided<cv::vector_d<std::size_t, 4>, B3>;
    using B1 = cb::nearest_neighbour<B2, cv::vector_d<double, 4>>;
    using B0 = cb::backup<B1>;
    using backend_t = B0;
    using field_t = covfie::field<B0>;
    static constexpr std::size_t depth = 4;
    static constexpr bool has_array = true;
    static constexpr bool serialisable = true;
    static const char * name() { return "backup/nn/strided/array N=4 M=3 idx=size_t real=double store=double"; }
    static const char * type_string() { return "backup<nearest_neighbour<strided<vector_d<size_t, 4>, array<vector_d<double, 3>>>, vector_d<double, 4>>>"; }
    static auto pack() { return covfie::make_parameter_pack(typename B0::configuration_t{{1.0, 0.0, 0.0, 0.5}, {1.25, 1.0, 1.0, 0.5}, {-102.0, -104.0, -104.0}}, std::monostate{}, typename B2::configuration_t{3ul, 2ul, 2ul, 2ul}, covfie::utility::nd_size<1>{24ul}); }
    static field_t make() { return field_t(pack()); }
    static field_t make_via_helper() { return field_t(covfie::make_parameter_pack_for<field_t>(typename B0::configuration_t{{1.0, 0.0, 0.0, 0.5}, {1.25, 1.0, 1.0, 0.5}, {-102.0, -104.0, -104.0}}, std::monostate{}, typename B2::configuration_t{3ul, 2ul, 2ul, 2ul}, covfie::utility::nd_size<1>{24ul})); }
    // a new field from the configurations the old one reports (and a copy of its innermost storage)
    static field_t rebuild(const field_t & f) { return field_t(covfie::make_parameter_pack(f.backend().get_configuration(), f.backend().get_backend().get_configuration(), f.backend().get_backend().get_backend().get_configuration(), typename B3::owning_data_t(f.backend().get_backend().get_backend().get_backend()))); }
    using array_t = B3;
    static const typename array_t::owning_data_t & storage(const field_t & f) { return f.backend().get_backend().get_backend().get_backend(); }
    static constexpr uint64_t array_len = 24, array_m = 3;
    static void fill(field_t & f) { typename array_t::non_owning_data_t v(storage(f)); for (uint64_t i = 0; i < array_len; ++i) for (uint64_t j = 0; j < array_m; ++j) v.at(i)[j] = (double)fillval(i, j, 41); }
    static model::P make_model() { return model::backup({(model::Q)1.0, (model::Q)0.0, (model::Q)0.0, (model::Q)0.5}, {(model::Q)1.25, (model::Q)1.0, (model::Q)1.0, (model::Q)0.5}, {(model::Q)-102.0, (model::Q)-104.0, (model::Q)-104.0}, model::nn(model::S_SIZE, model::strided({3, 2, 2, 2}, model::array(24, 3, [](uint64_t i, uint64_t j) { return (model::Q)fillval(i, j, 41); })))); }
    // returns -1 when every layer reports the configuration it was built with, else the index of the first layer that does not
    static int config_mismatch(const field_t & f) {
        { auto c0 = f.backend().get_configuration(); if (!(c0.min[0] == 1.0 && c0.min[1] == 0.0 && c0.min[2] == 0.0 && c0.min[3] == 0.5 && c0.max[0] == 1.25 && c0.max[1] == 1.0 && c0.max[2] == 1.0 && c0.max[3] == 0.5 && c0.default_value[0] == -102.0 && c0.default_value[1] == -104.0 && c0.default_value[2] == -104.0)) return 0; }
        { auto c1 = f.backend().get_backend().get_configuration(); if (!(std::is_same_v<std::decay_t<decltype(c1)>, std::monostate>)) return 1; }
        { auto c2 = f.backend().get_backend().get_backend().get_configuration(); if (!(c2[0] == 3ul && c2[1] == 2ul && c2[2] == 2ul && c2[3] == 2ul)) return 2; }
        { auto c3 = f.backend().get_backend().get_backend().get_backend().get_configuration(); if (!(c3[0] == 24ul)) return 3; }
        return -1; }
};
