// stack description of golden file g24.bin, written by covfie 9bc2998
struct G24 {
    using B4 = cb::array<cv::vector_d<double, 4>>;
    using B3 = cb::morton<cv::vector_d<int, 2>, B4, false>;
    using B2 = cb::backup<B3>;
    using B1 = cb::nearest_neighbour<B2, cv::vector_d<double, 2>>;
    using B0 = cb::backup<B1>;
    using backend_t = B0;
    using field_t = covfie::field<B0>;
    static constexpr std::size_t depth = 5;
    static constexpr bool has_array = true;
    static constexpr bool serialisable = true;
    static const char * name() { return "backup/nn/backup/morton_f/array N=2 M=4 idx=int real=double store=double"; }
    static const char * type_string() { return "backup<nearest_neighbour<backup<morton<vector_d<int, 2>, array<vector_d<double, 4>>, false>>, vector_d<double, 2>>>"; }
    static auto pack() { return covfie::make_parameter_pack(typename B0::configuration_t{{0.25, 0.0}, {1.0, 1.25}, {-100.0, -104.0, -102.0, -104.0}}, std::monostate{}, typename B2::configuration_t{{0, 1}, {0, 2}, {-104.0, -104.0, -105.0, -106.0}}, typename B3::configuration_t{2ul, 3ul}, covfie::utility::nd_size<1>{16ul}); }
    static field_t make() { return field_t(pack()); }
    static field_t make_via_helper() { return field_t(covfie::make_parameter_pack_for<field_t>(typename B0::configuration_t{{0.25, 0.0}, {1.0, 1.25}, {-100.0, -104.0, -102.0, -104.0}}, std::monostate{}, typename B2::configuration_t{{0, 1}, {0, 2}, {-104.0, -104.0, -105.0, -106.0}}, typename B3::configuration_t{2ul, 3ul}, covfie::utility::nd_size<1>{16ul})); }
    // a new field from the configurations the old one reports (and a copy of its innermost storage)
    static field_t rebuild(const field_t & f) { return field_t(covfie::make_parameter_pack(f.backend().get_configuration(), f.backend().get_backend().get_configuration(), f.backend().get_backend().get_backend().get_configuration(), f.backend().get_backend().get_backend().get_backend().get_configuration(), typename B4::owning_data_t(f.backend().get_backend().get_backend().get_backend().get_backend()))); }
    using array_t = B4;
    static const typename array_t::owning_data_t & storage(const field_t & f) { return f.backend().get_backend().get_backend().get_backend().get_backend(); }
    static constexpr uint64_t array_len = 16, array_m = 4;
    static void fill(field_t & f) { typename array_t::non_owning_data_t v(storage(f)); for (uint64_t i = 0; i < array_len; ++i) for (uint64_t j = 0; j < array_m; ++j) v.at(i)[j] = (double)fillval(i, j, 32); }
    static model::P make_model() { return model::backup({(model::Q)0.25, (model::Q)0.0}, {(model::Q)1.0, (model::Q)1.25}, {(model::Q)-100.0, (model::Q)-104.0, (model::Q)-102.0, (model::Q)-104.0}, model::nn(model::S_INT, model::backup({(model::Q)0.0, (model::Q)1.0}, {(model::Q)0.0, (model::Q)2.0}, {(model::Q)-104.0, (model::Q)-104.0, (model::Q)-105.0, (model::Q)-106.0}, model::morton({2, 3}, model::array(16, 4, [](uint64_t i, uint64_t j) { return (model::Q)fillval(i, j, 32); }))))); }
    // returns -1 when every layer reports the configuration it was built with, else the index of the first layer that does not
    static int config_mismatch(const field_t & f) {
        { auto c0 = f.backend().get_configuration(); if (!(c0.min[0] == 0.25 && c0.min[1] == 0.0 && c0.max[0] == 1.0 && c0.max[1] == 1.25 && c0.default_value[0] == -100.0 && c0.default_value[1] == -104.0 && c0.default_value[2] == -102.0 && c0.default_value[3] == -104.0)) return 0; }
        { auto c1 = f.backend().get_backend().get_configuration(); if (!(std::is_same_v<std::decay_t<decltype(c1)>, std::monostate>)) return 1; }
        { auto c2 = f.backend().get_backend().get_backend().get_configuration(); if (!(c2.min[0] == 0 && c2.min[1] == 1 && c2.max[0] == 0 && c2.max[1] == 2 && c2.default_value[0] == -104.0 && c2.default_value[1] == -104.0 && c2.default_value[2] == -105.0 && c2.default_value[3] == -106.0)) return 2; }
        { auto c3 = f.backend().get_backend().get_backend().get_backend().get_configuration(); if (!(c3[0] == 2ul && c3[1] == 3ul)) return 3; }
        { auto c4 = f.backend().get_backend().get_backend().get_backend().get_backend().get_configuration(); if (!(c4[0] == 16ul)) return 4; }
        return -1; }
};
