// stack description of golden file g20.bin, written by covfie 9bc2998
struct G20 {
    using B4 = cb::constant<cv::vector_d<std::size_t, 1>, cv::vector_d<double, 3>>;
    using B3 = cb::clamp<B4>;
    using B2 = cb::clamp<B3>;
    using B1 = cb::clamp<B2>;
    using B0 = cb::backup<B1>;
    using backend_t = B0;
    using field_t = covfie::field<B0>;
    static constexpr std::size_t depth = 5;
    static constexpr bool has_array = false;
    static constexpr bool serialisable = true;
    static const char * name() { return "backup/clamp/clamp/clamp/constant N=1 M=3 idx=size_t real=double store=double"; }
    static const char * type_string() { return "backup<clamp<clamp<clamp<constant<vector_d<size_t, 1>, vector_d<double, 3>>>>>>"; }
    static auto pack() { return covfie::make_parameter_pack(typename B0::configuration_t{{0ul}, {0ul}, {-103.0, -105.0, -105.0}}, typename B1::configuration_t{{2ul}, {2ul}}, typename B2::configuration_t{{1ul}, {2ul}}, typename B3::configuration_t{{3ul}, {3ul}}, typename B4::configuration_t{10.5, 8.5, 2.0}); }
    static field_t make() { return field_t(pack()); }
    static field_t make_via_helper() { return field_t(covfie::make_parameter_pack_for<field_t>(typename B0::configuration_t{{0ul}, {0ul}, {-103.0, -105.0, -105.0}}, typename B1::configuration_t{{2ul}, {2ul}}, typename B2::configuration_t{{1ul}, {2ul}}, typename B3::configuration_t{{3ul}, {3ul}}, typename B4::configuration_t{10.5, 8.5, 2.0})); }
    // a new field from the configurations the old one reports (and a copy of its innermost storage)
    static field_t rebuild(const field_t & f) { return field_t(covfie::make_parameter_pack(f.backend().get_configuration(), f.backend().get_backend().get_configuration(), f.backend().get_backend().get_backend().get_configuration(), f.backend().get_backend().get_backend().get_backend().get_configuration(), f.backend().get_backend().get_backend().get_backend().get_backend().get_configuration())); }
    static void fill(field_t &) {}
    static model::P make_model() { return model::backup({(model::Q)0.0}, {(model::Q)0.0}, {(model::Q)-103.0, (model::Q)-105.0, (model::Q)-105.0}, model::clamp({(model::Q)2.0}, {(model::Q)2.0}, model::clamp({(model::Q)1.0}, {(model::Q)2.0}, model::clamp({(model::Q)3.0}, {(model::Q)3.0}, model::constant({(model::Q)10.5, (model::Q)8.5, (model::Q)2.0}))))); }
    // returns -1 when every layer reports the configuration it was built with, else the index of the first layer that does not
    static int config_mismatch(const field_t & f) {
        { auto c0 = f.backend().get_configuration(); if (!(c0.min[0] == 0ul && c0.max[0] == 0ul && c0.default_value[0] == -103.0 && c0.default_value[1] == -105.0 && c0.default_value[2] == -105.0)) return 0; }
        { auto c1 = f.backend().get_backend().get_configuration(); if (!(c1.min[0] == 2ul && c1.max[0] == 2ul)) return 1; }
        { auto c2 = f.backend().get_backend().get_backend().get_configuration(); if (!(c2.min[0] == 1ul && c2.max[0] == 2ul)) return 2; }
        { auto c3 = f.backend().get_backend().get_backend().get_backend().get_configuration(); if (!(c3.min[0] == 3ul && c3.max[0] == 3ul)) return 3; }
        { auto c4 = f.backend().get_backend().get_backend().get_backend().get_backend().get_configuration(); if (!(c4[0] == 10.5 && c4[1] == 8.5 && c4[2] == 2.0)) return 4; }
        return -1; }
};
