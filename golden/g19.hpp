// stack description of golden file g19.bin, written by covfie 9bc2998
struct G19 {
    using B3 = cb::identity<cv::vector_d<double, 3>>;
    using B2 = cb::affine<B3>;
    using B1 = cb::clamp<B2>;
    using B0 = cb::backup<B1>;
    using backend_t = B0;
    using field_t = covfie::field<B0>;
    static constexpr std::size_t depth = 4;
    static constexpr bool has_array = false;
    static constexpr bool serialisable = true;
    static const char * name() { return "backup/clamp/affine/identity N=3 M=3 idx=unsigned real=double store=float"; }
    static const char * type_string() { return "backup<clamp<affine<identity<vector_d<double, 3>>>>>"; }
    static auto pack() { return covfie::make_parameter_pack(typename B0::configuration_t{{0.25, 0.75, 0.75}, {1.5, 4.5, 2.5}, {-103.0, -103.0, -104.0}}, typename B1::configuration_t{{-1.5, 5.0, 0.75}, {5.5, 5.5, 5.25}}, [] { typename B2::configuration_t m; m(0, 0) = 2.0; m(0, 1) = 0.0; m(0, 2) = 1.0; m(0, 3) = 1.5; m(1, 0) = 1.0; m(1, 1) = 1.0; m(1, 2) = 1.0; m(1, 3) = -2.0; m(2, 0) = 1.0; m(2, 1) = 1.0; m(2, 2) = 1.0; m(2, 3) = 0.75; return m; }(), std::monostate{}); }
    static field_t make() { return field_t(pack()); }
    static field_t make_via_helper() { return field_t(covfie::make_parameter_pack_for<field_t>(typename B0::configuration_t{{0.25, 0.75, 0.75}, {1.5, 4.5, 2.5}, {-103.0, -103.0, -104.0}}, typename B1::configuration_t{{-1.5, 5.0, 0.75}, {5.5, 5.5, 5.25}}, [] { typename B2::configuration_t m; m(0, 0) = 2.0; m(0, 1) = 0.0; m(0, 2) = 1.0; m(0, 3) = 1.5; m(1, 0) = 1.0; m(1, 1) = 1.0; m(1, 2) = 1.0; m(1, 3) = -2.0; m(2, 0) = 1.0; m(2, 1) = 1.0; m(2, 2) = 1.0; m(2, 3) = 0.75; return m; }(), std::monostate{})); }
    // a new field from the configurations the old one reports (and a copy of its innermost storage)
    static field_t rebuild(const field_t & f) { return field_t(covfie::make_parameter_pack(f.backend().get_configuration(), f.backend().get_backend().get_configuration(), f.backend().get_backend().get_backend().get_configuration(), f.backend().get_backend().get_backend().get_backend().get_configuration())); }
    static void fill(field_t &) {}
    static model::P make_model() { return model::backup({(model::Q)0.25, (model::Q)0.75, (model::Q)0.75}, {(model::Q)1.5, (model::Q)4.5, (model::Q)2.5}, {(model::Q)-103.0, (model::Q)-103.0, (model::Q)-104.0}, model::clamp({(model::Q)-1.5, (model::Q)5.0, (model::Q)0.75}, {(model::Q)5.5, (model::Q)5.5, (model::Q)5.25}, model::affine({{(model::Q)2.0, (model::Q)0.0, (model::Q)1.0, (model::Q)1.5}, {(model::Q)1.0, (model::Q)1.0, (model::Q)1.0, (model::Q)-2.0}, {(model::Q)1.0, (model::Q)1.0, (model::Q)1.0, (model::Q)0.75}}, model::S_DOUBLE, model::identity()))); }
    // returns -1 when every layer reports the configuration it was built with, else the index of the first layer that does not
    static int config_mismatch(const field_t & f) {
        { auto c0 = f.backend().get_configuration(); if (!(c0.min[0] == 0.25 && c0.min[1] == 0.75 && c0.min[2] == 0.75 && c0.max[0] == 1.5 && c0.max[1] == 4.5 && c0.max[2] == 2.5 && c0.default_value[0] == -103.0 && c0.default_value[1] == -103.0 && c0.default_value[2] == -104.0)) return 0; }
        { auto c1 = f.backend().get_backend().get_configuration(); if (!(c1.min[0] == -1.5 && c1.min[1] == 5.0 && c1.min[2] == 0.75 && c1.max[0] == 5.5 && c1.max[1] == 5.5 && c1.max[2] == 5.25)) return 1; }
        { auto c2 = f.backend().get_backend().get_backend().get_configuration(); if (!(c2(0, 0) == 2.0 && c2(0, 1) == 0.0 && c2(0, 2) == 1.0 && c2(0, 3) == 1.5 && c2(1, 0) == 1.0 && c2(1, 1) == 1.0 && c2(1, 2) == 1.0 && c2(1, 3) == -2.0 && c2(2, 0) == 1.0 && c2(2, 1) == 1.0 && c2(2, 2) == 1.0 && c2(2, 3) == 0.75)) return 2; }
        { auto c3 = f.backend().get_backend().get_backend().get_backend().get_configuration(); if (!(std::is_same_v<std::decay_t<decltype(c3)>, std::monostate>)) return 3; }
        return -1; }
};
