// stack description of golden file g07.bin, written by covfie 9bc2998
struct G7 {
    using B2 = cb::identity<cv::vector_d<std::size_t, 4>>;
    using B1 = cb::nearest_neighbour<B2, cv::vector_d<double, 4>>;
    using B0 = cb::affine<B1>;
    using backend_t = B0;
    using field_t = covfie::field<B0>;
    static constexpr std::size_t depth = 3;
    static constexpr bool has_array = false;
    static constexpr bool serialisable = true;
    static const char * name() { return "affine/nn/identity N=4 M=4 idx=size_t real=double store=double"; }
    static const char * type_string() { return "affine<nearest_neighbour<identity<vector_d<size_t, 4>>, vector_d<double, 4>>>"; }
    static auto pack() { return covfie::make_parameter_pack([] { typename B0::configuration_t m; m(0, 0) = 1.0; m(0, 1) = 2.0; m(0, 2) = 1.0; m(0, 3) = 1.0; m(0, 4) = 1.0; m(1, 0) = 1.0; m(1, 1) = 1.0; m(1, 2) = 1.0; m(1, 3) = -1.0; m(1, 4) = 1.0; m(2, 0) = 0.0; m(2, 1) = 2.0; m(2, 2) = 2.0; m(2, 3) = -1.0; m(2, 4) = -0.5; m(3, 0) = 0.0; m(3, 1) = 1.0; m(3, 2) = -1.0; m(3, 3) = 1.0; m(3, 4) = 1.75; return m; }(), std::monostate{}, std::monostate{}); }
    static field_t make() { return field_t(pack()); }
    static field_t make_via_helper() { return field_t(covfie::make_parameter_pack_for<field_t>([] { typename B0::configuration_t m; m(0, 0) = 1.0; m(0, 1) = 2.0; m(0, 2) = 1.0; m(0, 3) = 1.0; m(0, 4) = 1.0; m(1, 0) = 1.0; m(1, 1) = 1.0; m(1, 2) = 1.0; m(1, 3) = -1.0; m(1, 4) = 1.0; m(2, 0) = 0.0; m(2, 1) = 2.0; m(2, 2) = 2.0; m(2, 3) = -1.0; m(2, 4) = -0.5; m(3, 0) = 0.0; m(3, 1) = 1.0; m(3, 2) = -1.0; m(3, 3) = 1.0; m(3, 4) = 1.75; return m; }(), std::monostate{}, std::monostate{})); }
    // a new field from the configurations the old one reports (and a copy of its innermost storage)
    static field_t rebuild(const field_t & f) { return field_t(covfie::make_parameter_pack(f.backend().get_configuration(), f.backend().get_backend().get_configuration(), f.backend().get_backend().get_backend().get_configuration())); }
    static void fill(field_t &) {}
    static model::P make_model() { return model::affine({{(model::Q)1.0, (model::Q)2.0, (model::Q)1.0, (model::Q)1.0, (model::Q)1.0}, {(model::Q)1.0, (model::Q)1.0, (model::Q)1.0, (model::Q)-1.0, (model::Q)1.0}, {(model::Q)0.0, (model::Q)2.0, (model::Q)2.0, (model::Q)-1.0, (model::Q)-0.5}, {(model::Q)0.0, (model::Q)1.0, (model::Q)-1.0, (model::Q)1.0, (model::Q)1.75}}, model::S_DOUBLE, model::nn(model::S_SIZE, model::identity())); }
    // returns -1 when every layer reports the configuration it was built with, else the index of the first layer that does not
    static int config_mismatch(const field_t & f) {
        { auto c0 = f.backend().get_configuration(); if (!(c0(0, 0) == 1.0 && c0(0, 1) == 2.0 && c0(0, 2) == 1.0 && c0(0, 3) == 1.0 && c0(0, 4) == 1.0 && c0(1, 0) == 1.0 && c0(1, 1) == 1.0 && c0(1, 2) == 1.0 && c0(1, 3) == -1.0 && c0(1, 4) == 1.0 && c0(2, 0) == 0.0 && c0(2, 1) == 2.0 && c0(2, 2) == 2.0 && c0(2, 3) == -1.0 && c0(2, 4) == -0.5 && c0(3, 0) == 0.0 && c0(3, 1) == 1.0 && c0(3, 2) == -1.0 && c0(3, 3) == 1.0 && c0(3, 4) == 1.75)) return 0; }
        { auto c1 = f.backend().get_backend().get_configuration(); if (!(std::is_same_v<std::decay_t<decltype(c1)>, std::monostate>)) return 1; }
        { auto c2 = f.backend().get_backend().get_backend().get_configuration(); if (!(std::is_same_v<std::decay_t<decltype(c2)>, std::monostate>)) return 2; }
        return -1; }
};
