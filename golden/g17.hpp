// stack description of golden file g17.bin, written by covfie 9bc2998
struct G17 {
    using B4 = cb::identity<cv::vector_d<double, 1>>;
    using B3 = cb::affine<B4>;
    using B2 = cb::clamp<B3>;
    using B1 = cb::backup<B2>;
    using B0 = cb::backup<B1>;
    using backend_t = B0;
    using field_t = covfie::field<B0>;
    static constexpr std::size_t depth = 5;
    static constexpr bool has_array = false;
    static constexpr bool serialisable = true;
    static const char * name() { return "backup/backup/clamp/affine/identity N=1 M=1 idx=size_t real=double store=double"; }
    static const char * type_string() { return "backup<backup<clamp<affine<identity<vector_d<double, 1>>>>>>"; }
    static auto pack() { return covfie::make_parameter_pack(typename B0::configuration_t{{2.0}, {3.25}, {-103.0}}, typename B1::configuration_t{{-1.5}, {4.5}, {-103.0}}, typename B2::configuration_t{{1.25}, {3.5}}, [] { typename B3::configuration_t m; m(0, 0) = 1.0; m(0, 1) = 0.25; return m; }(), std::monostate{}); }
    static field_t make() { return field_t(pack()); }
    static field_t make_via_helper() { return field_t(covfie::make_parameter_pack_for<field_t>(typename B0::configuration_t{{2.0}, {3.25}, {-103.0}}, typename B1::configuration_t{{-1.5}, {4.5}, {-103.0}}, typename B2::configuration_t{{1.25}, {3.5}}, [] { typename B3::configuration_t m; m(0, 0) = 1.0; m(0, 1) = 0.25; return m; }(), std::monostate{})); }
    // a new field from the configurations the old one reports (and a copy of its innermost storage)
    static field_t rebuild(const field_t & f) { return field_t(covfie::make_parameter_pack(f.backend().get_configuration(), f.backend().get_backend().get_configuration(), f.backend().get_backend().get_backend().get_configuration(), f.backend().get_backend().get_backend().get_backend().get_configuration(), f.backend().get_backend().get_backend().get_backend().get_backend().get_configuration())); }
    static void fill(field_t &) {}
    static model::P make_model() { return model::backup({(model::Q)2.0}, {(model::Q)3.25}, {(model::Q)-103.0}, model::backup({(model::Q)-1.5}, {(model::Q)4.5}, {(model::Q)-103.0}, model::clamp({(model::Q)1.25}, {(model::Q)3.5}, model::affine({{(model::Q)1.0, (model::Q)0.25}}, model::S_DOUBLE, model::identity())))); }
    // returns -1 when every layer reports the configuration it was built with, else the index of the first layer that does not
    static int config_mismatch(const field_t & f) {
        { auto c0 = f.backend().get_configuration(); if (!(c0.min[0] == 2.0 && c0.max[0] == 3.25 && c0.default_value[0] == -103.0)) return 0; }
        { auto c1 = f.backend().get_backend().get_configuration(); if (!(c1.min[0] == -1.5 && c1.max[0] == 4.5 && c1.default_value[0] == -103.0)) return 1; }
        { auto c2 = f.backend().get_backend().get_backend().get_configuration(); if (!(c2.min[0] == 1.25 && c2.max[0] == 3.5)) return 2; }
        { auto c3 = f.backend().get_backend().get_backend().get_backend().get_configuration(); if (!(c3(0, 0) == 1.0 && c3(0, 1) == 0.25)) return 3; }
        { auto c4 = f.backend().get_backend().get_backend().get_backend().get_backend().get_configuration(); if (!(std::is_same_v<std::decay_t<decltype(c4)>, std::monostate>)) return 4; }
        return -1; }
};
