// stack description of golden file g11.bin, written by covfie 9bc2998
struct G11 {
    using B3 = cb::array<cv::vector_d<float, 1>>;
    using B2 = cb::morton<cv::vector_d<std::size_t, 2>, B3, true>;
    using B1 = cb::nearest_neighbour<B2, cv::vector_d<float, 2>>;
    using B0 = cb::affine<B1>;
    using backend_t = B0;
    using field_t = covfie::field<B0>;
    static constexpr std::size_t depth = 4;
    static constexpr bool has_array = true;
    static constexpr bool serialisable = true;
    static const char * name() { return "affine/nn/morton_t/array N=2 M=1 idx=size_t real=float store=float"; }
    static const char * type_string() { return "affine<nearest_neighbour<morton<vector_d<size_t, 2>, array<vector_d<float, 1>>, true>, vector_d<float, 2>>>"; }
    static auto pack() { return covfie::make_parameter_pack([] { typename B0::configuration_t m; m(0, 0) = 1.0f; m(0, 1) = 0.0f; m(0, 2) = -1.0f; m(1, 0) = 0.0f; m(1, 1) = 1.0f; m(1, 2) = -1.25f; return m; }(), std::monostate{}, typename B2::configuration_t{2ul, 2ul}, covfie::utility::nd_size<1>{4ul}); }
    static field_t make() { return field_t(pack()); }
    static field_t make_via_helper() { return field_t(covfie::make_parameter_pack_for<field_t>([] { typename B0::configuration_t m; m(0, 0) = 1.0f; m(0, 1) = 0.0f; m(0, 2) = -1.0f; m(1, 0) = 0.0f; m(1, 1) = 1.0f; m(1, 2) = -1.25f; return m; }(), std::monostate{}, typename B2::configuration_t{2ul, 2ul}, covfie::utility::nd_size<1>{4ul})); }
    // a new field from the configurations the old one reports (and a copy of its innermost storage)
    static field_t rebuild(const field_t & f) { return field_t(covfie::make_parameter_pack(f.backend().get_configuration(), f.backend().get_backend().get_configuration(), f.backend().get_backend().get_backend().get_configuration(), typename B3::owning_data_t(f.backend().get_backend().get_backend().get_backend()))); }
    using array_t = B3;
    static const typename array_t::owning_data_t & storage(const field_t & f) { return f.backend().get_backend().get_backend().get_backend(); }
    static constexpr uint64_t array_len = 4, array_m = 1;
    static void fill(field_t & f) { typename array_t::non_owning_data_t v(storage(f)); for (uint64_t i = 0; i < array_len; ++i) for (uint64_t j = 0; j < array_m; ++j) v.at(i)[j] = (float)fillval(i, j, 48); }
    static model::P make_model() { return model::affine({{(model::Q)1.0, (model::Q)0.0, (model::Q)-1.0}, {(model::Q)0.0, (model::Q)1.0, (model::Q)-1.25}}, model::S_FLOAT, model::nn(model::S_SIZE, model::morton({2, 2}, model::array(4, 1, [](uint64_t i, uint64_t j) { return (model::Q)fillval(i, j, 48); })))); }
    // returns -1 when every layer reports the configuration it was built with, else the index of the first layer that does not
    static int config_mismatch(const field_t & f) {
        { auto c0 = f.backend().get_configuration(); if (!(c0(0, 0) == 1.0f && c0(0, 1) == 0.0f && c0(0, 2) == -1.0f && c0(1, 0) == 0.0f && c0(1, 1) == 1.0f && c0(1, 2) == -1.25f)) return 0; }
        { auto c1 = f.backend().get_backend().get_configuration(); if (!(std::is_same_v<std::decay_t<decltype(c1)>, std::monostate>)) return 1; }
        { auto c2 = f.backend().get_backend().get_backend().get_configuration(); if (!(c2[0] == 2ul && c2[1] == 2ul)) return 2; }
        { auto c3 = f.backend().get_backend().get_backend().get_backend().get_configuration(); if (!(c3[0] == 4ul)) return 3; }
        return -1; }
};
