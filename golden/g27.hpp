// stack description of golden file g27.bin, written by covfie 9bc2998
struct G27 {
    using B3 = cb::array<cv::vector_d<float, 4>>;
    using B2 = cb::strided<cv::vector_d<unsigned, 4>, B3>;
    using B1 = cb::shuffle<B2, std::index_sequence<2, 1, 3, 0>>;
    using B0 = cb::backup<B1>;
    using backend_t = B0;
    using field_t = covfie::field<B0>;
    static constexpr std::size_t depth = 4;
    static constexpr bool has_array = true;
    static constexpr bool serialisable = true;
    static const char * name() { return "backup/shuffle/strided/array N=4 M=4 idx=unsigned real=double store=float"; }
    static const char * type_string() { return "backup<shuffle<strided<vector_d<unsigned, 4>, array<vector_d<float, 4>>>, index_sequence<2, 1, 3, 0>>>"; }
    static auto pack() { return covfie::make_parameter_pack(typename B0::configuration_t{{0u, 0u, 1u, 0u}, {1u, 2u, 1u, 0u}, {-104.0f, -104.0f, -105.0f, -104.0f}}, std::monostate{}, typename B2::configuration_t{2ul, 3ul, 2ul, 2ul}, covfie::utility::nd_size<1>{24ul}); }
    static field_t make() { return field_t(pack()); }
    static field_t make_via_helper() { return field_t(covfie::make_parameter_pack_for<field_t>(typename B0::configuration_t{{0u, 0u, 1u, 0u}, {1u, 2u, 1u, 0u}, {-104.0f, -104.0f, -105.0f, -104.0f}}, std::monostate{}, typename B2::configuration_t{2ul, 3ul, 2ul, 2ul}, covfie::utility::nd_size<1>{24ul})); }
    // a new field from the configurations the old one reports (and a copy of its innermost storage)
    static field_t rebuild(const field_t & f) { return field_t(covfie::make_parameter_pack(f.backend().get_configuration(), f.backend().get_backend().get_configuration(), f.backend().get_backend().get_backend().get_configuration(), typename B3::owning_data_t(f.backend().get_backend().get_backend().get_backend()))); }
    using array_t = B3;
    static const typename array_t::owning_data_t & storage(const field_t & f) { return f.backend().get_backend().get_backend().get_backend(); }
    static constexpr uint64_t array_len = 24, array_m = 4;
    static void fill(field_t & f) { typename array_t::non_owning_data_t v(storage(f)); for (uint64_t i = 0; i < array_len; ++i) for (uint64_t j = 0; j < array_m; ++j) v.at(i)[j] = (float)fillval(i, j, 4); }
    static model::P make_model() { return model::backup({(model::Q)0.0, (model::Q)0.0, (model::Q)1.0, (model::Q)0.0}, {(model::Q)1.0, (model::Q)2.0, (model::Q)1.0, (model::Q)0.0}, {(model::Q)-104.0, (model::Q)-104.0, (model::Q)-105.0, (model::Q)-104.0}, model::shuffle({2, 1, 3, 0}, model::strided({2, 3, 2, 2}, model::array(24, 4, [](uint64_t i, uint64_t j) { return (model::Q)fillval(i, j, 4); })))); }
    // returns -1 when every layer reports the configuration it was built with, else the index of the first layer that does not
    static int config_mismatch(const field_t & f) {
        { auto c0 = f.backend().get_configuration(); if (!(c0.min[0] == 0u && c0.min[1] == 0u && c0.min[2] == 1u && c0.min[3] == 0u && c0.max[0] == 1u && c0.max[1] == 2u && c0.max[2] == 1u && c0.max[3] == 0u && c0.default_value[0] == -104.0f && c0.default_value[1] == -104.0f && c0.default_value[2] == -105.0f && c0.default_value[3] == -104.0f)) return 0; }
        { auto c1 = f.backend().get_backend().get_configuration(); if (!(std::is_same_v<std::decay_t<decltype(c1)>, std::monostate>)) return 1; }
        { auto c2 = f.backend().get_backend().get_backend().get_configuration(); if (!(c2[0] == 2ul && c2[1] == 3ul && c2[2] == 2ul && c2[3] == 2ul)) return 2; }
        { auto c3 = f.backend().get_backend().get_backend().get_backend().get_configuration(); if (!(c3[0] == 24ul)) return 3; }
        return -1; }
};
