// stack description of golden file g14.bin, written by covfie 9bc2998
struct G14 {
    using B3 = cb::identity<cv::vector_d<float, 2>>;
    using B2 = cb::backup<B3>;
    using B1 = cb::affine<B2>;
    using B0 = cb::backup<B1>;
    using backend_t = B0;
    using field_t = covfie::field<B0>;
    static constexpr std::size_t depth = 4;
    static constexpr bool has_array = false;
    static constexpr bool serialisable = true;
    static const char * name() { return "backup/affine/backup/identity N=2 M=2 idx=int real=float store=float"; }
    static const char * type_string() { return "backup<affine<backup<identity<vector_d<float, 2>>>>>"; }
    static auto pack() { return covfie::make_parameter_pack(typename B0::configuration_t{{-1.5f, -1.5f}, {2.25f, 4.5f}, {-101.0f, -105.0f}}, [] { typename B1::configuration_t m; m(0, 0) = 2.0f; m(0, 1) = 0.0f; m(0, 2) = -1.25f; m(1, 0) = 0.0f; m(1, 1) = 1.0f; m(1, 2) = -1.75f; return m; }(), typename B2::configuration_t{{-1.5f, 2.75f}, {4.5f, 3.0f}, {-104.0f, -105.0f}}, std::monostate{}); }
    static field_t make() { return field_t(pack()); }
    static field_t make_via_helper() { return field_t(covfie::make_parameter_pack_for<field_t>(typename B0::configuration_t{{-1.5f, -1.5f}, {2.25f, 4.5f}, {-101.0f, -105.0f}}, [] { typename B1::configuration_t m; m(0, 0) = 2.0f; m(0, 1) = 0.0f; m(0, 2) = -1.25f; m(1, 0) = 0.0f; m(1, 1) = 1.0f; m(1, 2) = -1.75f; return m; }(), typename B2::configuration_t{{-1.5f, 2.75f}, {4.5f, 3.0f}, {-104.0f, -105.0f}}, std::monostate{})); }
    // a new field from the configurations the old one reports (and a copy of its innermost storage)
    static field_t rebuild(const field_t & f) { return field_t(covfie::make_parameter_pack(f.backend().get_configuration(), f.backend().get_backend().get_configuration(), f.backend().get_backend().get_backend().get_configuration(), f.backend().get_backend().get_backend().get_backend().get_configuration())); }
    static void fill(field_t &) {}
    static model::P make_model() { return model::backup({(model::Q)-1.5, (model::Q)-1.5}, {(model::Q)2.25, (model::Q)4.5}, {(model::Q)-101.0, (model::Q)-105.0}, model::affine({{(model::Q)2.0, (model::Q)0.0, (model::Q)-1.25}, {(model::Q)0.0, (model::Q)1.0, (model::Q)-1.75}}, model::S_FLOAT, model::backup({(model::Q)-1.5, (model::Q)2.75}, {(model::Q)4.5, (model::Q)3.0}, {(model::Q)-104.0, (model::Q)-105.0}, model::identity()))); }
    // returns -1 when every layer reports the configuration it was built with, else the index of the first layer that does not
    static int config_mismatch(const field_t & f) {
        { auto c0 = f.backend().get_configuration(); if (!(c0.min[0] == -1.5f && c0.min[1] == -1.5f && c0.max[0] == 2.25f && c0.max[1] == 4.5f && c0.default_value[0] == -101.0f && c0.default_value[1] == -105.0f)) return 0; }
        { auto c1 = f.backend().get_backend().get_configuration(); if (!(c1(0, 0) == 2.0f && c1(0, 1) == 0.0f && c1(0, 2) == -1.25f && c1(1, 0) == 0.0f && c1(1, 1) == 1.0f && c1(1, 2) == -1.75f)) return 1; }
        { auto c2 = f.backend().get_backend().get_backend().get_configuration(); if (!(c2.min[0] == -1.5f && c2.min[1] == 2.75f && c2.max[0] == 4.5f && c2.max[1] == 3.0f && c2.default_value[0] == -104.0f && c2.default_value[1] == -105.0f)) return 2; }
        { auto c3 = f.backend().get_backend().get_backend().get_backend().get_configuration(); if (!(std::is_same_v<std::decay_t<decltype(c3)>, std::monostate>)) return 3; }
        return -1; }
};
