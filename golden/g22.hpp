// stack description of golden file g22.bin, written by covfie 9bc2998
struct G22 {
    using B4 = cb::array<cv::vector_d<float, 1>>;
    using B3 = cb::morton<cv::vector_d<std::size_t, 4>, B4, false>;
    using B2 = cb::linear<B3, cv::vector_d<double, 4>>;
    using B1 = cb::clamp<B2>;
    using B0 = cb::backup<B1>;
    using backend_t = B0;
    using field_t = covfie::field<B0>;
    static constexpr std::size_t depth = 5;
    static constexpr bool has_array = true;
    static constexpr bool serialisable = true;
    static const char * name() { return "backup/clamp/linear/morton_f/array N=4 M=1 idx=size_t real=double store=float"; }
    static const char * type_string() { return "backup<clamp<linear<morton<vector_d<size_t, 4>, array<vector_d<float, 1>>, false>, vector_d<double, 4>>>>"; }
    static auto pack() { return covfie::make_parameter_pack(typename B0::configuration_t{{0.5, 1.75, 1.25, 0.5}, {1.75, 1.75, 1.5, 0.75}, {-103.0f}}, typename B1::configuration_t{{1.25, 0.75, 1.75, 0.5}, {1.75, 1.75, 1.75, 0.75}}, std::monostate{}, typename B3::configuration_t{3ul, 3ul, 3ul, 2ul}, covfie::utility::nd_size<1>{256ul}); }
    static field_t make() { return field_t(pack()); }
    static field_t make_via_helper() { return field_t(covfie::make_parameter_pack_for<field_t>(typename B0::configuration_t{{0.5, 1.75, 1.25, 0.5}, {1.75, 1.75, 1.5, 0.75}, {-103.0f}}, typename B1::configuration_t{{1.25, 0.75, 1.75, 0.5}, {1.75, 1.75, 1.75, 0.75}}, std::monostate{}, typename B3::configuration_t{3ul, 3ul, 3ul, 2ul}, covfie::utility::nd_size<1>{256ul})); }
    // a new field from the configurations the old one reports (and a copy of its innermost storage)
    static field_t rebuild(const field_t & f) { return field_t(covfie::make_parameter_pack(f.backend().get_configuration(), f.backend().get_backend().get_configuration(), f.backend().get_backend().get_backend().get_configuration(), f.backend().get_backend().get_backend().get_backend().get_configuration(), typename B4::owning_data_t(f.backend().get_backend().get_backend().get_backend().get_backend()))); }
    using array_t = B4;
    static const typename array_t::owning_data_t & storage(const field_t & f) { return f.backend().get_backend().get_backend().get_backend().get_backend(); }
    static constexpr uint64_t array_len = 256, array_m = 1;
    static void fill(field_t & f) { typename array_t::non_owning_data_t v(storage(f)); for (uint64_t i = 0; i < array_len; ++i) for (uint64_t j = 0; j < array_m; ++j) v.at(i)[j] = (float)fillval(i, j, 12); }
    static model::P make_model() { return model::backup({(model::Q)0.5, (model::Q)1.75, (model::Q)1.25, (model::Q)0.5}, {(model::Q)1.75, (model::Q)1.75, (model::Q)1.5, (model::Q)0.75}, {(model::Q)-103.0}, model::clamp({(model::Q)1.25, (model::Q)0.75, (model::Q)1.75, (model::Q)0.5}, {(model::Q)1.75, (model::Q)1.75, (model::Q)1.75, (model::Q)0.75}, model::linear(model::S_SIZE, model::morton({3, 3, 3, 2}, model::array(256, 1, [](uint64_t i, uint64_t j) { return (model::Q)fillval(i, j, 12); }))))); }
    // returns -1 when every layer reports the configuration it was built with, else the index of the first layer that does not
    static int config_mismatch(const field_t & f) {
        { auto c0 = f.backend().get_configuration(); if (!(c0.min[0] == 0.5 && c0.min[1] == 1.75 && c0.min[2] == 1.25 && c0.min[3] == 0.5 && c0.max[0] == 1.75 && c0.max[1] == 1.75 && c0.max[2] == 1.5 && c0.max[3] == 0.75 && c0.default_value[0] == -103.0f)) return 0; }
        { auto c1 = f.backend().get_backend().get_configuration(); if (!(c1.min[0] == 1.25 && c1.min[1] == 0.75 && c1.min[2] == 1.75 && c1.min[3] == 0.5 && c1.max[0] == 1.75 && c1.max[1] == 1.75 && c1.max[2] == 1.75 && c1.max[3] == 0.75)) return 1; }
        { auto c2 = f.backend().get_backend().get_backend().get_configuration(); if (!(std::is_same_v<std::decay_t<decltype(c2)>, std::monostate>)) return 2; }
        { auto c3 = f.backend().get_backend().get_backend().get_backend().get_configuration(); if (!(c3[0] == 3ul && c3[1] == 3ul && c3[2] == 3ul && c3[3] == 2ul)) return 3; }
        { auto c4 = f.backend().get_backend().get_backend().get_backend().get_backend().get_configuration(); if (!(c4[0] == 256ul)) return 4; }
        return -1; }
};
