// stack description of golden file g18.bin, written by covfie 9bc2998
struct G18 {
    using B4 = cb::identity<cv::vector_d<float, 2>>;
    using B3 = cb::backup<B4>;
    using B2 = cb::shuffle<B3, std::index_sequence<1, 0>>;
    using B1 = cb::backup<B2>;
    using B0 = cb::backup<B1>;
    using backend_t = B0;
    using field_t = covfie::field<B0>;
    static constexpr std::size_t depth = 5;
    static constexpr bool has_array = false;
    static constexpr bool serialisable = true;
    static const char * name() { return "backup/backup/shuffle/backup/identity N=2 M=2 idx=int real=float store=double"; }
    static const char * type_string() { return "backup<backup<shuffle<backup<identity<vector_d<float, 2>>>, index_sequence<1, 0>>>>"; }
    static auto pack() { return covfie::make_parameter_pack(typename B0::configuration_t{{2.25f, 1.25f}, {5.0f, 2.0f}, {-104.0f, -103.0f}}, typename B1::configuration_t{{5.0f, 1.25f}, {5.75f, 5.0f}, {-102.0f, -103.0f}}, std::monostate{}, typename B3::configuration_t{{4.25f, 5.0f}, {6.0f, 5.0f}, {-100.0f, -103.0f}}, std::monostate{}); }
    static field_t make() { return field_t(pack()); }
    static field_t make_via_helper() { return field_t(covfie::make_parameter_pack_for<field_t>(typename B0::configuration_t{{2.25f, 1.25f}, {5.0f, 2.0f}, {-104.0f, -103.0f}}, typename B1::configuration_t{{5.0f, 1.25f}, {5.75f, 5.0f}, {-102.0f, -103.0f}}, std::monostate{}, typename B3::configuration_t{{4.25f, 5.0f}, {6.0f, 5.0f}, {-100.0f, -103.0f}}, std::monostate{})); }
    // a new field from the configurations the old one reports (and a copy of its innermost storage)
    static field_t rebuild(const field_t & f) { return field_t(covfie::make_parameter_pack(f.backend().get_configuration(), f.backend().get_backend().get_configuration(), f.backend().get_backend().get_backend().get_configuration(), f.backend().get_backend().get_backend().get_backend().get_configuration(), f.backend().get_backend().get_backend().get_backend().get_backend().get_configuration())); }
    static void fill(field_t &) {}
    static model::P make_model() { return model::backup({(model::Q)2.25, (model::Q)1.25}, {(model::Q)5.0, (model::Q)2.0}, {(model::Q)-104.0, (model::Q)-103.0}, model::backup({(model::Q)5.0, (model::Q)1.25}, {(model::Q)5.75, (model::Q)5.0}, {(model::Q)-102.0, (model::Q)-103.0}, model::shuffle({1, 0}, model::backup({(model::Q)4.25, (model::Q)5.0}, {(model::Q)6.0, (model::Q)5.0}, {(model::Q)-100.0, (model::Q)-103.0}, model::identity())))); }
    // returns -1 when every layer reports the configuration it was built with, else the index of the first layer that does not
    static int config_mismatch(const field_t & f) {
        { auto c0 = f.backend().get_configuration(); if (!(c0.min[0] == 2.25f && c0.min[1] == 1.25f && c0.max[0] == 5.0f && c0.max[1] == 2.0f && c0.default_value[0] == -104.0f && c0.default_value[1] == -103.0f)) return 0; }
        { auto c1 = f.backend().get_backend().get_configuration(); if (!(c1.min[0] == 5.0f && c1.min[1] == 1.25f && c1.max[0] == 5.75f && c1.max[1] == 5.0f && c1.default_value[0] == -102.0f && c1.default_value[1] == -103.0f)) return 1; }
        { auto c2 = f.backend().get_backend().get_backend().get_configuration(); if (!(std::is_same_v<std::decay_t<decltype(c2)>, std::monostate>)) return 2; }
        { auto c3 = f.backend().get_backend().get_backend().get_backend().get_configuration(); if (!(c3.min[0] == 4.25f && c3.min[1] == 5.0f && c3.max[0] == 6.0f && c3.max[1] == 5.0f && c3.default_value[0] == -100.0f && c3.default_value[1] == -103.0f)) return 3; }
        { auto c4 = f.backend().get_backend().get_backend().get_backend().get_backend().get_configuration(); if (!(std::is_same_v<std::decay_t<decltype(c4)>, std::monostate>)) return 4; }
        return -1; }
};
