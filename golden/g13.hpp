// stack description of golden file g13.bin, written by covfie 9bc2998
struct G13 {
    using B0 = cb::array<cv::vector_d<float, 3>>;
    using backend_t = B0;
    using field_t = covfie::field<B0>;
    static constexpr std::size_t depth = 1;
    static constexpr bool has_array = true;
    static constexpr bool serialisable = true;
    static const char * name() { return "array N=1 M=3 idx=size_t real=float store=float"; }
    static const char * type_string() { return "cb::array<cv::vector_d<float, 3>>"; }
    static auto pack() { return covfie::make_parameter_pack(covfie::utility::nd_size<1>{20ul}); }
    static field_t make() { return field_t(pack()); }
    static field_t make_via_helper() { return field_t(covfie::make_parameter_pack_for<field_t>(covfie::utility::nd_size<1>{20ul})); }
    // a new field from the configurations the old one reports (and a copy of its innermost storage)
    static field_t rebuild(const field_t & f) { return field_t(covfie::make_parameter_pack(typename B0::owning_data_t(f.backend()))); }
    using array_t = B0;
    static const typename array_t::owning_data_t & storage(const field_t & f) { return f.backend(); }
    static constexpr uint64_t array_len = 20, array_m = 3;
    static void fill(field_t & f) { typename array_t::non_owning_data_t v(storage(f)); for (uint64_t i = 0; i < array_len; ++i) for (uint64_t j = 0; j < array_m; ++j) v.at(i)[j] = (float)fillval(i, j, 57); }
    static model::P make_model() { return model::array(20, 3, [](uint64_t i, uint64_t j) { return (model::Q)fillval(i, j, 57); }); }
    // returns -1 when every layer reports the configuration it was built with, else the index of the first layer that does not
    static int config_mismatch(const field_t & f) {
        { auto c0 = f.backend().get_configuration(); if (!(c0[0] == 20ul)) return 0; }
        return -1; }
};
