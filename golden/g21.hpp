// stack description of golden file g21.bin, written by covfie 9bc2998
struct G21 {
    using B3 = cb::array<cv::vector_d<double, 2>>;
    using B2 = cb::hilbert<cv::vector_d<int, 2>, B3>;
    using B1 = cb::clamp<B2>;
    using B0 = cb::backup<B1>;
    using backend_t = B0;
    using field_t = covfie::field<B0>;
    static constexpr std::size_t depth = 4;
    static constexpr bool has_array = true;
    static constexpr bool serialisable = true;
    static const char * name() { return "backup/clamp/hilbert/array N=2 M=2 idx=int real=float store=double"; }
    static const char * type_string() { return "backup<clamp<hilbert<vector_d<int, 2>, array<vector_d<double, 2>>>>>"; }
    static auto pack() { return covfie::make_parameter_pack(typename B0::configuration_t{{2, 3}, {2, 3}, {-101.0, -105.0}}, typename B1::configuration_t{{1, 0}, {1, 3}}, typename B2::configuration_t{5ul, 5ul}, covfie::utility::nd_size<1>{64ul}); }
    static field_t make() { return field_t(pack()); }
    static field_t make_via_helper() { return field_t(covfie::make_parameter_pack_for<field_t>(typename B0::configuration_t{{2, 3}, {2, 3}, {-101.0, -105.0}}, typename B1::configuration_t{{1, 0}, {1, 3}}, typename B2::configuration_t{5ul, 5ul}, covfie::utility::nd_size<1>{64ul})); }
    // a new field from the configurations the old one reports (and a copy of its innermost storage)
    static field_t rebuild(const field_t & f) { return field_t(covfie::make_parameter_pack(f.backend().get_configuration(), f.backend().get_backend().get_configuration(), f.backend().get_backend().get_backend().get_configuration(), typename B3::owning_data_t(f.backend().get_backend().get_backend().get_backend()))); }
    using array_t = B3;
    static const typename array_t::owning_data_t & storage(const field_t & f) { return f.backend().get_backend().get_backend().get_backend(); }
    static constexpr uint64_t array_len = 64, array_m = 2;
    static void fill(field_t & f) { typename array_t::non_owning_data_t v(storage(f)); for (uint64_t i = 0; i < array_len; ++i) for (uint64_t j = 0; j < array_m; ++j) v.at(i)[j] = (double)fillval(i, j, 36); }
    static model::P make_model() { return model::backup({(model::Q)2.0, (model::Q)3.0}, {(model::Q)2.0, (model::Q)3.0}, {(model::Q)-101.0, (model::Q)-105.0}, model::clamp({(model::Q)1.0, (model::Q)0.0}, {(model::Q)1.0, (model::Q)3.0}, model::hilbert({5, 5}, model::array(64, 2, [](uint64_t i, uint64_t j) { return (model::Q)fillval(i, j, 36); })))); }
    // returns -1 when every layer reports the configuration it was built with, else the index of the first layer that does not
    static int config_mismatch(const field_t & f) {
        { auto c0 = f.backend().get_configuration(); if (!(c0.min[0] == 2 && c0.min[1] == 3 && c0.max[0] == 2 && c0.max[1] == 3 && c0.default_value[0] == -101.0 && c0.default_value[1] == -105.0)) return 0; }
        { auto c1 = f.backend().get_backend().get_configuration(); if (!(c1.min[0] == 1 && c1.min[1] == 0 && c1.max[0] == 1 && c1.max[1] == 3)) return 1; }
        { auto c2 = f.backend().get_backend().get_backend().get_configuration(); if (!(c2[0] == 5ul && c2[1] == 5ul)) return 2; }
        { auto c3 = f.backend().get_backend().get_backend().get_backend().get_configuration(); if (!(c3[0] == 64ul)) return 3; }
        return -1; }
};
