// stack description of golden file g03.bin, written by covfie 9bc2998
struct G3 {
    using B3 = cb::array<cv::vector_d<double, 3>>;
    using B2 = cb::morton<cv::vector_d<unsigned, 2>, B3, false>;
    using B1 = cb::backup<B2>;
    using B0 = cb::affine<B1>;
    using backend_t = B0;
    using field_t = covfie::field<B0>;
    static constexpr std::size_t depth = 4;
    static constexpr bool has_array = true;
    static constexpr bool serialisable = true;
    static const char * name() { return "affine/backup/morton_f/array N=2 M=3 idx=unsigned real=double store=double"; }
    static const char * type_string() { return "affine<backup<morton<vector_d<unsigned, 2>, array<vector_d<double, 3>>, false>>>"; }
    static auto pack() { return covfie::make_parameter_pack([] { typename B0::configuration_t m; m(0, 0) = 1u; m(0, 1) = 0u; m(0, 2) = 2u; m(1, 0) = 0u; m(1, 1) = 1u; m(1, 2) = 2u; return m; }(), typename B1::configuration_t{{1u, 2u}, {2u, 2u}, {-101.0, -104.0, -102.0}}, typename B2::configuration_t{3ul, 3ul}, covfie::utility::nd_size<1>{16ul}); }
    static field_t make() { return field_t(pack()); }
    static field_t make_via_helper() { return field_t(covfie::make_parameter_pack_for<field_t>([] { typename B0::configuration_t m; m(0, 0) = 1u; m(0, 1) = 0u; m(0, 2) = 2u; m(1, 0) = 0u; m(1, 1) = 1u; m(1, 2) = 2u; return m; }(), typename B1::configuration_t{{1u, 2u}, {2u, 2u}, {-101.0, -104.0, -102.0}}, typename B2::configuration_t{3ul, 3ul}, covfie::utility::nd_size<1>{16ul})); }
    // a new field from the configurations the old one reports (and a copy of its innermost storage)
    static field_t rebuild(const field_t & f) { return field_t(covfie::make_parameter_pack(f.backend().get_configuration(), f.backend().get_backend().get_configuration(), f.backend().get_backend().get_backend().get_configuration(), typename B3::owning_data_t(f.backend().get_backend().get_backend().get_backend()))); }
    using array_t = B3;
    static const typename array_t::owning_data_t & storage(const field_t & f) { return f.backend().get_backend().get_backend().get_backend(); }
    static constexpr uint64_t array_len = 16, array_m = 3;
    static void fill(field_t & f) { typename array_t::non_owning_data_t v(storage(f)); for (uint64_t i = 0; i < array_len; ++i) for (uint64_t j = 0; j < array_m; ++j) v.at(i)[j] = (double)fillval(i, j, 11); }
    static model::P make_model() { return model::affine({{(model::Q)1.0, (model::Q)0.0, (model::Q)2.0}, {(model::Q)0.0, (model::Q)1.0, (model::Q)2.0}}, model::S_UNSIGNED, model::backup({(model::Q)1.0, (model::Q)2.0}, {(model::Q)2.0, (model::Q)2.0}, {(model::Q)-101.0, (model::Q)-104.0, (model::Q)-102.0}, model::morton({3, 3}, model::array(16, 3, [](uint64_t i, uint64_t j) { return (model::Q)fillval(i, j, 11); })))); }
    // returns -1 when every layer reports the configuration it was built with, else the index of the first layer that does not
    static int config_mismatch(const field_t & f) {
        { auto c0 = f.backend().get_configuration(); if (!(c0(0, 0) == 1u && c0(0, 1) == 0u && c0(0, 2) == 2u && c0(1, 0) == 0u && c0(1, 1) == 1u && c0(1, 2) == 2u)) return 0; }
        { auto c1 = f.backend().get_backend().get_configuration(); if (!(c1.min[0] == 1u && c1.min[1] == 2u && c1.max[0] == 2u && c1.max[1] == 2u && c1.default_value[0] == -101.0 && c1.default_value[1] == -104.0 && c1.default_value[2] == -102.0)) return 1; }
        { auto c2 = f.backend().get_backend().get_backend().get_configuration(); if (!(c2[0] == 3ul && c2[1] == 3ul)) return 2; }
        { auto c3 = f.backend().get_backend().get_backend().get_backend().get_configuration(); if (!(c3[0] == 16ul)) return 3; }
        return -1; }
};
