// stack description of golden file g15.bin, written by covfie 9bc2998
struct G15 {
    using B3 = cb::array<cv::vector_d<double, 4>>;
    using B2 = cb::hilbert<cv::vector_d<std::size_t, 2>, B3>;
    using B1 = cb::affine<B2>;
    using B0 = cb::backup<B1>;
    using backend_t = B0;
    using field_t = covfie::field<B0>;
    static constexpr std::size_t depth = 4;
    static constexpr bool has_array = true;
    static constexpr bool serialisable = true;
    static const char * name() { return "backup/affine/hilbert/array N=2 M=4 idx=size_t real=float store=double"; }
    static const char * type_string() { return "backup<affine<hilbert<vector_d<size_t, 2>, array<vector_d<double, 4>>>>>"; }
    static auto pack() { return covfie::make_parameter_pack(typename B0::configuration_t{{1ul, 1ul}, {1ul, 1ul}, {-104.0, -103.0, -106.0, -107.0}}, [] { typename B1::configuration_t m; m(0, 0) = 1ul; m(0, 1) = 0ul; m(0, 2) = 1ul; m(1, 0) = 1ul; m(1, 1) = 0ul; m(1, 2) = 1ul; return m; }(), typename B2::configuration_t{2ul, 5ul}, covfie::utility::nd_size<1>{64ul}); }
    static field_t make() { return field_t(pack()); }
    static field_t make_via_helper() { return field_t(covfie::make_parameter_pack_for<field_t>(typename B0::configuration_t{{1ul, 1ul}, {1ul, 1ul}, {-104.0, -103.0, -106.0, -107.0}}, [] { typename B1::configuration_t m; m(0, 0) = 1ul; m(0, 1) = 0ul; m(0, 2) = 1ul; m(1, 0) = 1ul; m(1, 1) = 0ul; m(1, 2) = 1ul; return m; }(), typename B2::configuration_t{2ul, 5ul}, covfie::utility::nd_size<1>{64ul})); }
    // a new field from the configurations the old one reports (and a copy of its innermost storage)
    static field_t rebuild(const field_t & f) { return field_t(covfie::make_parameter_pack(f.backend().get_configuration(), f.backend().get_backend().get_configuration(), f.backend().get_backend().get_backend().get_configuration(), typename B3::owning_data_t(f.backend().get_backend().get_backend().get_backend()))); }
    using array_t = B3;
    static const typename array_t::owning_data_t & storage(const field_t & f) { return f.backend().get_backend().get_backend().get_backend(); }
    static constexpr uint64_t array_len = 64, array_m = 4;
    static void fill(field_t & f) { typename array_t::non_owning_data_t v(storage(f)); for (uint64_t i = 0; i < array_len; ++i) for (uint64_t j = 0; j < array_m; ++j) v.at(i)[j] = (double)fillval(i, j, 60); }
    static model::P make_model() { return model::backup({(model::Q)1.0, (model::Q)1.0}, {(model::Q)1.0, (model::Q)1.0}, {(model::Q)-104.0, (model::Q)-103.0, (model::Q)-106.0, (model::Q)-107.0}, model::affine({{(model::Q)1.0, (model::Q)0.0, (model::Q)1.0}, {(model::Q)1.0, (model::Q)0.0, (model::Q)1.0}}, model::S_SIZE, model::hilbert({2, 5}, model::array(64, 4, [](uint64_t i, uint64_t j) { return (model::Q)fillval(i, j, 60); })))); }
    // returns -1 when every layer reports the configuration it was built with, else the index of the first layer that does not
    static int config_mismatch(const field_t & f) {
        { auto c0 = f.backend().get_configuration(); if (!(c0.min[0] == 1ul && c0.min[1] == 1ul && c0.max[0] == 1ul && c0.max[1] == 1ul && c0.default_value[0] == -104.0 && c0.default_value[1] == -103.0 && c0.default_value[2] == -106.0 && c0.default_value[3] == -107.0)) return 0; }
        { auto c1 = f.backend().get_backend().get_configuration(); if (!(c1(0, 0) == 1ul && c1(0, 1) == 0ul && c1(0, 2) == 1ul && c1(1, 0) == 1ul && c1(1, 1) == 0ul && c1(1, 2) == 1ul)) return 1; }
        { auto c2 = f.backend().get_backend().get_backend().get_configuration(); if (!(c2[0] == 2ul && c2[1] == 5ul)) return 2; }
        { auto c3 = f.backend().get_backend().get_backend().get_backend().get_configuration(); if (!(c3[0] == 64ul)) return 3; }
        return -1; }
};
