// stack description of golden file g09.bin, written by covfie 9bc2998
struct G9 {
    using B3 = cb::identity<cv::vector_d<float, 1>>;
    using B2 = cb::clamp<B3>;
    using B1 = cb::shuffle<B2, std::index_sequence<0>>;
    using B0 = cb::affine<B1>;
    using backend_t = B0;
    using field_t = covfie::field<B0>;
    static constexpr std::size_t depth = 4;
    static constexpr bool has_array = false;
    static constexpr bool serialisable = true;
    static const char * name() { return "affine/shuffle/clamp/identity N=1 M=1 idx=size_t real=float store=float"; }
    static const char * type_string() { return "affine<shuffle<clamp<identity<vector_d<float, 1>>>, index_sequence<0>>>"; }
    static auto pack() { return covfie::make_parameter_pack([] { typename B0::configuration_t m; m(0, 0) = 1.0f; m(0, 1) = -0.75f; return m; }(), std::monostate{}, typename B2::configuration_t{{-1.5f}, {5.75f}}, std::monostate{}); }
    static field_t make() { return field_t(pack()); }
    static field_t make_via_helper() { return field_t(covfie::make_parameter_pack_for<field_t>([] { typename B0::configuration_t m; m(0, 0) = 1.0f; m(0, 1) = -0.75f; return m; }(), std::monostate{}, typename B2::configuration_t{{-1.5f}, {5.75f}}, std::monostate{})); }
    // a new field from the configurations the old one reports (and a copy of its innermost storage)
    static field_t rebuild(const field_t & f) { return field_t(covfie::make_parameter_pack(f.backend().get_configuration(), f.backend().get_backend().get_configuration(), f.backend().get_backend().get_backend().get_configuration(), f.backend().get_backend().get_backend().get_backend().get_configuration())); }
    static void fill(field_t &) {}
    static model::P make_model() { return model::affine({{(model::Q)1.0, (model::Q)-0.75}}, model::S_FLOAT, model::shuffle({0}, model::clamp({(model::Q)-1.5}, {(model::Q)5.75}, model::identity()))); }
    // returns -1 when every layer reports the configuration it was built with, else the index of the first layer that does not
    static int config_mismatch(const field_t & f) {
        { auto c0 = f.backend().get_configuration(); if (!(c0(0, 0) == 1.0f && c0(0, 1) == -0.75f)) return 0; }
        { auto c1 = f.backend().get_backend().get_configuration(); if (!(std::is_same_v<std::decay_t<decltype(c1)>, std::monostate>)) return 1; }
        { auto c2 = f.backend().get_backend().get_backend().get_configuration(); if (!(c2.min[0] == -1.5f && c2.max[0] == 5.75f)) return 2; }
        { auto c3 = f.backend().get_backend().get_backend().get_backend().get_configuration(); if (!(std::is_same_v<std::decay_t<decltype(c3)>, std::monostate>)) return 3; }
        return -1; }
};
