// stack description of golden file g06.bin, written by covfie 9bc2998
struct G6 {
    using B4 = cb::array<cv::vector_d<double, 2>>;
    using B3 = cb::morton<cv::vector_d<std::size_t, 3>, B4, false>;
    using B2 = cb::affine<B3>;
    using B1 = cb::nearest_neighbour<B2, cv::vector_d<float, 3>>;
    using B0 = cb::affine<B1>;
    using backend_t = B0;
    using field_t = covfie::field<B0>;
    static constexpr std::size_t depth = 5;
    static constexpr bool has_array = true;
    static constexpr bool serialisable = true;
    static const char * name() { return "affine/nn/affine/morton_f/array N=3 M=2 idx=size_t real=float store=double"; }
    static const char * type_string() { return "affine<nearest_neighbour<affine<morton<vector_d<size_t, 3>, array<vector_d<double, 2>>, false>>, vector_d<float, 3>>>"; }
    static auto pack() { return covfie::make_parameter_pack([] { typename B0::configuration_t m; m(0, 0) = -1.0f; m(0, 1) = 2.0f; m(0, 2) = 1.0f; m(0, 3) = -1.75f; m(1, 0) = -1.0f; m(1, 1) = 1.0f; m(1, 2) = 2.0f; m(1, 3) = -1.75f; m(2, 0) = 2.0f; m(2, 1) = -1.0f; m(2, 2) = -1.0f; m(2, 3) = -2.0f; return m; }(), std::monostate{}, [] { typename B2::configuration_t m; m(0, 0) = 0ul; m(0, 1) = 0ul; m(0, 2) = 1ul; m(0, 3) = 1ul; m(1, 0) = 1ul; m(1, 1) = 0ul; m(1, 2) = 0ul; m(1, 3) = 2ul; m(2, 0) = 0ul; m(2, 1) = 1ul; m(2, 2) = 0ul; m(2, 3) = 1ul; return m; }(), typename B3::configuration_t{2ul, 2ul, 4ul}, covfie::utility::nd_size<1>{64ul}); }
    static field_t make() { return field_t(pack()); }
    static field_t make_via_helper() { return field_t(covfie::make_parameter_pack_for<field_t>([] { typename B0::configuration_t m; m(0, 0) = -1.0f; m(0, 1) = 2.0f; m(0, 2) = 1.0f; m(0, 3) = -1.75f; m(1, 0) = -1.0f; m(1, 1) = 1.0f; m(1, 2) = 2.0f; m(1, 3) = -1.75f; m(2, 0) = 2.0f; m(2, 1) = -1.0f; m(2, 2) = -1.0f; m(2, 3) = -2.0f; return m; }(), std::monostate{}, [] { typename B2::configuration_t m; m(0, 0) = 0ul; m(0, 1) = 0ul; m(0, 2) = 1ul; m(0, 3) = 1ul; m(1, 0) = 1ul; m(1, 1) = 0ul; m(1, 2) = 0ul; m(1, 3) = 2ul; m(2, 0) = 0ul; m(2, 1) = 1ul; m(2, 2) = 0ul; m(2, 3) = 1ul; return m; }(), typename B3::configuration_t{2ul, 2ul, 4ul}, covfie::utility::nd_size<1>{64ul})); }
    // a new field from the configurations the old one reports (and a copy of its innermost storage)
    static field_t rebuild(const field_t & f) { return field_t(covfie::make_parameter_pack(f.backend().get_configuration(), f.backend().get_backend().get_configuration(), f.backend().get_backend().get_backend().get_configuration(), f.backend().get_backend().get_backend().get_backend().get_configuration(), typename B4::owning_data_t(f.backend().get_backend().get_backend().get_backend().get_backend()))); }
    using array_t = B4;
    static const typename array_t::owning_data_t & storage(const field_t & f) { return f.backend().get_backend().get_backend().get_backend().get_backend(); }
    static constexpr uint64_t array_len = 64, array_m = 2;
    static void fill(field_t & f) { typename array_t::non_owning_data_t v(storage(f)); for (uint64_t i = 0; i < array_len; ++i) for (uint64_t j = 0; j < array_m; ++j) v.at(i)[j] = (double)fillval(i, j, 36); }
    static model::P make_model() { return model::affine({{(model::Q)-1.0, (model::Q)2.0, (model::Q)1.0, (model::Q)-1.75}, {(model::Q)-1.0, (model::Q)1.0, (model::Q)2.0, (model::Q)-1.75}, {(model::Q)2.0, (model::Q)-1.0, (model::Q)-1.0, (model::Q)-2.0}}, model::S_FLOAT, model::nn(model::S_SIZE, model::affine({{(model::Q)0.0, (model::Q)0.0, (model::Q)1.0, (model::Q)1.0}, {(model::Q)1.0, (model::Q)0.0, (model::Q)0.0, (model::Q)2.0}, {(model::Q)0.0, (model::Q)1.0, (model::Q)0.0, (model::Q)1.0}}, model::S_SIZE, model::morton({2, 2, 4}, model::array(64, 2, [](uint64_t i, uint64_t j) { return (model::Q)fillval(i, j, 36); }))))); }
    // returns -1 when every layer reports the configuration it was built with, else the index of the first layer that does not
    static int config_mismatch(const field_t & f) {
        { auto c0 = f.backend().get_configuration(); if (!(c0(0, 0) == -1.0f && c0(0, 1) == 2.0f && c0(0, 2) == 1.0f && c0(0, 3) == -1.75f && c0(1, 0) == -1.0f && c0(1, 1) == 1.0f && c0(1, 2) == 2.0f && c0(1, 3) == -1.75f && c0(2, 0) == 2.0f && c0(2, 1) == -1.0f && c0(2, 2) == -1.0f && c0(2, 3) == -2.0f)) return 0; }
        { auto c1 = f.backend().get_backend().get_configuration(); if (!(std::is_same_v<std::decay_t<decltype(c1)>, std::monostate>)) return 1; }
        { auto c2 = f.backend().get_backend().get_backend().get_configuration(); if (!(c2(0, 0) == 0ul && c2(0, 1) == 0ul && c2(0, 2) == 1ul && c2(0, 3) == 1ul && c2(1, 0) == 1ul && c2(1, 1) == 0ul && c2(1, 2) == 0ul && c2(1, 3) == 2ul && c2(2, 0) == 0ul && c2(2, 1) == 1ul && c2(2, 2) == 0ul && c2(2, 3) == 1ul)) return 2; }
        { auto c3 = f.backend().get_backend().get_backend().get_backend().get_configuration(); if (!(c3[0] == 2ul && c3[1] == 2ul && c3[2] == 4ul)) return 3; }
        { auto c4 = f.backend().get_backend().get_backend().get_backend().get_backend().get_configuration(); if (!(c4[0] == 64ul)) return 4; }
        return -1; }
};
