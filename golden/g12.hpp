// stack description of golden file g12.bin, written by covfie 9bc2998
struct G12 {
    using B4 = cb::array<cv::vector_d<double, 4>>;
    using B3 = cb::hilbert<cv::vector_d<unsigned, 2>, B4>;
    using B2 = cb::nearest_neighbour<B3, cv::vector_d<float, 2>>;
    using B1 = cb::shuffle<B2, std::index_sequence<1, 0>>;
    using B0 = cb::affine<B1>;
    using backend_t = B0;
    using field_t = covfie::field<B0>;
    static constexpr std::size_t depth = 5;
    static constexpr bool has_array = true;
    static constexpr bool serialisable = true;
    static const char * name() { return "affine/shuffle/nn/hilbert/array N=2 M=4 idx=unsigned real=float store=double"; }
    static const char * type_string() { return "affine<shuffle<nearest_neighbour<hilbert<vector_d<unsigned, 2>, array<vector_d<double, 4>>>, vector_d<float, 2>>, index_sequence<1, 0>>>"; }
    static auto pack() { return covfie::make_parameter_pack([] { typename B0::configuration_t m; m(0, 0) = 1.0f; m(0, 1) = -1.0f; m(0, 2) = 1.5f; m(1, 0) = 1.0f; m(1, 1) = 1.0f; m(1, 2) = 1.25f; return m; }(), std::monostate{}, std::monostate{}, typename B3::configuration_t{4ul, 5ul}, covfie::utility::nd_size<1>{64ul}); }
    static field_t make() { return field_t(pack()); }
    static field_t make_via_helper() { return field_t(covfie::make_parameter_pack_for<field_t>([] { typename B0::configuration_t m; m(0, 0) = 1.0f; m(0, 1) = -1.0f; m(0, 2) = 1.5f; m(1, 0) = 1.0f; m(1, 1) = 1.0f; m(1, 2) = 1.25f; return m; }(), std::monostate{}, std::monostate{}, typename B3::configuration_t{4ul, 5ul}, covfie::utility::nd_size<1>{64ul})); }
    // a new field from the configurations the old one reports (and a copy of its innermost storage)
    static field_t rebuild(const field_t & f) { return field_t(covfie::make_parameter_pack(f.backend().get_configuration(), f.backend().get_backend().get_configuration(), f.backend().get_backend().get_backend().get_configuration(), f.backend().get_backend().get_backend().get_backend().get_configuration(), typename B4::owning_data_t(f.backend().get_backend().get_backend().get_backend().get_backend()))); }
    using array_t = B4;
    static const typename array_t::owning_data_t & storage(const field_t & f) { return f.backend().get_backend().get_backend().get_backend().get_backend(); }
    static constexpr uint64_t array_len = 64, array_m = 4;
    static void fill(field_t & f) { typename array_t::non_owning_data_t v(storage(f)); for (uint64_t i = 0; i < array_len; ++i) for (uint64_t j = 0; j < array_m; ++j) v.at(i)[j] = (double)fillval(i, j, 13); }
    static model::P make_model() { return model::affine({{(model::Q)1.0, (model::Q)-1.0, (model::Q)1.5}, {(model::Q)1.0, (model::Q)1.0, (model::Q)1.25}}, model::S_FLOAT, model::shuffle({1, 0}, model::nn(model::S_UNSIGNED, model::hilbert({4, 5}, model::array(64, 4, [](uint64_t i, uint64_t j) { return (model::Q)fillval(i, j, 13); }))))); }
    // returns -1 when every layer reports the configuration it was built with, else the index of the first layer that does not
    static int config_mismatch(const field_t & f) {
        { auto c0 = f.backend().get_configuration(); if (!(c0(0, 0) == 1.0f && c0(0, 1) == -1.0f && c0(0, 2) == 1.5f && c0(1, 0) == 1.0f && c0(1, 1) == 1.0f && c0(1, 2) == 1.25f)) return 0; }
        { auto c1 = f.backend().get_backend().get_configuration(); if (!(std::is_same_v<std::decay_t<decltype(c1)>, std::monostate>)) return 1; }
        { auto c2 = f.backend().get_backend().get_backend().get_configuration(); if (!(std::is_same_v<std::decay_t<decltype(c2)>, std::monostate>)) return 2; }
        { auto c3 = f.backend().get_backend().get_backend().get_backend().get_configuration(); if (!(c3[0] == 4ul && c3[1] == 5ul)) return 3; }
        { auto c4 = f.backend().get_backend().get_backend().get_backend().get_backend().get_configuration(); if (!(c4[0] == 64ul)) return 4; }
        return -1; }
};
