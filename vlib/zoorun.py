"""Shared plumbing for the zoo-driven checks: batches generated stacks into translation units,
each with per-stack fall-back parts (a stack covfie refuses to compile does not take the rest down)."""
from gen import zoo


def make_shards(ctx, stacks, driver_call, tag, flavour="asan-dbg", per_shard=None, primary=True, defines=(), extra_include="zoo_drivers.hpp", with_partners=False):
    n = len(stacks)
    if per_shard is None:
        per_shard = max(4, (n + 15) // 16)
    shards = []
    for b in range(0, n, per_shard):
        batch = stacks[b:b + per_shard]
        src = zoo.translation_unit(batch, b, extra_include, driver_call, with_partners=with_partners)
        split = []
        for k, st in enumerate(batch):
            split.append(dict(name="%s/stack%d[%s]/%s" % (tag, b + k, "/".join(l["kind"] for l in st.layers), flavour),
                              src=zoo.translation_unit([st], b + k, extra_include, driver_call, with_partners=with_partners), is_text=True,
                              flavour=flavour, primary=primary, defines=list(defines), stack=st))
        shards.append(dict(name="%s/batch%d/%s" % (tag, b // per_shard, flavour), src=src, is_text=True, flavour=flavour,
                           primary=primary, split=split, defines=list(defines)))
    return shards


def describe(stacks):
    kinds = {}
    nm = set()
    for s in stacks:
        for l in s.layers:
            kinds[l["kind"]] = kinds.get(l["kind"], 0) + 1
        nm.add((s.n, s.m))
    return {"stacks": len(stacks), "layer_occurrences": kinds, "distinct_N_M_pairs": len(nm),
            "with_N_ne_M": sum(1 for s in stacks if s.n != s.m),
            "depth_histogram": {str(d): sum(1 for s in stacks if s.depth() == d) for d in range(1, 7)},
            "array_backed": sum(1 for s in stacks if s.has_array())}
