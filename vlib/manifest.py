"""Single source for MANIFEST.json.  `python3 -m vlib.manifest` rewrites it."""
import json
import os

from vlib import core

BASELINE = "cmake --build /repo/_build && /repo/_build/tests/core/test_core && /repo/_build/tests/cpu/test_cpu"

# id -> (category, technique, level text, level note, design ref)
CHECKS = {
    "C18": ("exploration",
            "sanitizer build (ASan+UBSan, assertions on/off) + exhaustive differential oracle",
            "Exhaustive at 8 and 16 bits (and all 2^31 32-bit inputs in the thorough tier), boundary+random at 32/64 bits, "
            "every extent box up to the bound for the sizing consequence; executions of the real templates compared with "
            "bit-counting / modular-exponentiation references under ASan+UBSan in debug and NDEBUG builds.",
            "Trusts the reference arithmetic in harness/refs.hpp (unsigned __int128) and std::bit_ceil; 64-bit inputs are sampled, not enumerated.",
            "DESIGN.md section 4 C18"),
}

NOT_YET = {}


def build():
    with open(os.path.join(core.VERIF, "properties.jsonl")) as fh:
        props = [json.loads(l) for l in fh if l.strip()]
    checks, na = [], []
    for p in props:
        pid = p["id"]
        if pid in CHECKS:
            cat, tech, text, note, ref = CHECKS[pid]
            checks.append({
                "property_id": pid,
                "quick_cmd": "bin/vcheck %s --tier quick" % pid,
                "thorough_cmd": "bin/vcheck %s --tier thorough" % pid,
                "evidence_file": "/verif/evidence/%s.json" % pid,
                "replay_cmd_template": "bin/vcheck %s --replay {path}" % pid,
                "engine": "vcheck",
                "level_claimed": {"category": cat, "text": text, "design_ref": ref},
                "level_note": note,
                "technique": tech,
            })
        else:
            na.append({"property_id": pid, "reason": NOT_YET.get(pid, "check not built yet (work in progress; runtime monitoring is applicable, see DESIGN.md)")})
    return {
        "version": 1,
        "setup_cmd": "python3 bin/vsetup",
        "hooks": {"guard": "COVFIE_VERIF", "enable": "no source hooks are needed: every event is observed at the public boundary (views, streams, user-defined probe backends) or by a sanitizer; checks compile harnesses directly against /repo/lib",
                  "baseline_off_cmd": BASELINE, "source_commits": [], "add_only": True},
        "engines": [{"name": "vcheck", "path": "bin/vcheck", "serves_properties": sorted(CHECKS),
                     "kind_free_text": "Python driver: content-hashed build cache over /repo/lib, g++ sanitizer/valgrind build matrix, watchdogged harness runs, line protocol from C++ monitors, known-findings matching, evidence writer"}],
        "checks": checks,
        "not_applicable": na,
        "notes": "Runtime monitoring and sanitizers only. See DESIGN.md. known_findings.json lists genuine covfie defects (open/fixed).",
    }


if __name__ == "__main__":
    doc = build()
    with open(os.path.join(core.VERIF, "MANIFEST.json"), "w") as fh:
        json.dump(doc, fh, indent=1)
    print("MANIFEST.json: %d checks, %d not_applicable" % (len(doc["checks"]), len(doc["not_applicable"])))
