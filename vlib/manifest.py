"""Single source for MANIFEST.json.  `python3 -m vlib.manifest` rewrites it."""
import json
import os

from vlib import core

BASELINE = "cmake --build /repo/_build && /repo/_build/tests/core/test_core && /repo/_build/tests/cpu/test_cpu"

# id -> (category, technique, level text, level note, design ref)
SAN = "g++ ASan+UBSan builds (assertions on / -O2 NDEBUG) of harnesses over the real templates + "
CHECKS = {
    "C01": ("exploration", SAN + "ND-array model monitor and index-recording probe storage backend",
            "Every extent vector up to the bound is enumerated for every (layer, N, coordinate type, storage) instantiation and every cell is written, "
            "read back and checked for non-interference against a dense-array model under ASan with the library's bounds assertions on; a probe "
            "storage backend observes every flat index for fields up to 2^62 cells.",
            "Trusts the model (std::vector keyed by the model's own position function) and ASan/assertions as memory monitors; beyond the bound only sampled.",
            "DESIGN.md section 4 C01"),
    "C03": ("exploration", SAN + "binary128 exact interpolant with a-priori forward error bound",
            "Executions of linear<..>::at for N 1..5 x M 1..4 (N != M), float/double coordinates and storage, three layers beneath, on non-affine and one-hot "
            "data at adversarial coordinates, each compared with the exact N-linear sum in binary128 under an operation-count error bound; lattice points bit-exact; every fourth field interpolated after dump/reload, every fourth after copy assignment over another field.",
            "Trusts libquadmath and the error analysis (slack factor 2, underflow term); corner values are read through the layer beneath, which C01/C14 check separately.",
            "DESIGN.md section 4 C03"),
    "C04": ("exploration", SAN + "exact distance oracle in binary128 on boundary-value workloads",
            "Half-integers and their neighbouring representable values up to the mantissa width, values a float cannot hold, random coordinates; the chosen "
            "lattice point is observed through nearest_neighbour<identity> and through id-carrying array fields; every lookup repeated through the variadic at(c0, c1, ...) with arguments of mixed exact types.",
            "Default rounding mode only; ties may go either way.", "DESIGN.md section 4 C04"),
    "C02": ("exploration", SAN + "reference interpreter (binary128) over grammar-generated stacks",
            "Stacks are generated from the layer grammar (pairwise adjacency cover in the quick tier, all kind sequences to depth 4 plus sampled depth 5 in the "
            "thorough tier) with N and M chosen independently; each is compiled against the working tree, filled through the array backend and looked up at "
            "hundreds of proposed coordinates; a layer-by-layer interpreter of the same description decides in-domain and the expected value; equality.",
            "Trusted base: harness/model.hpp and gen/zoo.py (the same configuration values go into the C++ parameter pack and into the model).", "DESIGN.md section 4 C02"),
    "C05": ("exploration", SAN + "ND-array model over exhaustive extent boxes; CUDA host shim",
            "All ordered pairs of storage orders (Morton BMI2 and portable distinct) for N 1..4, every extent vector up to the bound plus listed large extents (padded side 1024..4096) for N 1, 2: configuration, every lattice "
            "value, source unchanged and unshared, round trip, move-conversion; whole affine<interp<order<array>>> stacks; host->cuda_device_array under a malloc/memcpy shim.",
            "CUDA path is host-shim only (reduced assurance, as the property states); array length across different orders is deliberately not compared.", "DESIGN.md section 4 C05"),
    "C06": ("exploration", SAN + "bitwise dump/load/dump monitor + independent Python format reader",
            "Every generated serialisable stack with special bit patterns (signed zeros, subnormals, infinities, NaN payloads) in storage: configuration per layer, "
            "stored bits via memcmp, second dump byte-identical, stream consumed exactly; each dump parsed by an independent grammar reader; fields without cells (zero extents, default-constructed) included.",
            "x86-64 SSE scalar moves preserve NaN payloads; patterns compared with memcmp only.", "DESIGN.md section 4 C06"),
    "C07": ("exploration", SAN + "round-to-nearest definition oracle; golden files of the pinned revision; independent format reader",
            "Writer/reader pairs differing in interpolation method and/or storage precision with tie and near-tie values; 28 committed golden files written by the "
            "pinned revision must load, match recorded configuration/values and re-dump byte-identically; hashes and grammar also checked without covfie code; dumps of fields without cells parsed by the grammar reader.",
            "Goldens come from one revision (9bc2998); pairs whose configuration payload is typed by the stored scalar are format-incompatible and excluded.", "DESIGN.md section 4 C07"),
    "C08": ("fault_enumeration", "fault-injecting stream buffer + outcome classification under ASan+UBSan (assertions on/off) + valgrind memcheck error deltas",
            "Complete enumeration of truncation points of representative dumps, every magic/tag/width word with sampled replacements, a stream failing at the "
            "n-th read for every n (EOF-style and throwing), pre-failed streams (truncations and failing reads also on streams with an exception mask set), all ordered pairs of format-incompatible stacks, and a ladder of dimension mismatches; a loader that does not return is a violation (watchdog); the only accepted outcome is a std::exception.",
            "The element-count word is not corrupted (the property does not promise it); memcheck sees uninitialised, not stale, data.", "DESIGN.md section 4 C08"),
    "C17": ("exploration", SAN + "configuration read-back monitor over generated stacks + coinciding-type towers for the positional helper",
            "Per layer, the reported configuration equals the one passed in (directly and via make_parameter_pack_for); a field rebuilt from reported configurations "
            "and storage agrees with the interpreter; the same after copy assignment over a larger field and after grow-then-shrink; helper exercised at depths 2..10 with adjacent layers of identical configuration type.",
            "Equality is member-wise on exactly representable values.", "DESIGN.md section 4 C17"),
    "C09": ("exploration", SAN + "binary128 reference with running error bound",
            "Random chains of 1..4 affine transforms in N 1..4, float/double, exact (small integers: equality) and rounded (error bound) tiers, both association orders, "
            "factories and the affine layer over identity through both lookup forms.",
            "Trusts the binary128 reference and the gamma bound with slack 4.", "DESIGN.md section 4 C09"),
    "C10": ("exploration", SAN + "extremes-catalogue workload, reference clamp, probe storage",
            "Type extremes, infinities, subnormals and values adjacent to every bound crossed over the axes for six coordinate types spelled with the library aliases; clamp over array and probe "
            "storage (fields up to 2^40 cells) and above both interpolators, under ASan with assertions on.",
            "NaN excluded as the property states; clamp below an interpolator is exercised in C03.", "DESIGN.md section 4 C10"),
    "C11": ("exploration", SAN + "query-counting probe backend",
            "A probe backend counts the queries it receives: outside the closed box => default and 0 queries, inside => the probe's value, for "
            "coordinates at and adjacent to every bound, N,M in 1..4 (N != M), five coordinate types; plus array storage under ASan.",
            "Box membership evaluated in long double (exact for all generated values).", "DESIGN.md section 4 C11"),
    "C12": ("exploration", SAN + "LeakSanitizer; ND-array model of a slot pool, compared after every operation",
            "Every enabled history of length <= 3 (4 thorough) over a 36-letter alphabet of ownership operations on 2 slots for four type pairs, replayed from an "
            "empty pool, plus seeded random histories of 200 operations on 4 slots; after every operation every live field equals its model at every cell through "
            "fresh and long-lived views; ASan/LSan/UBSan watch the special members.",
            "Self-assignment (copy and move) must preserve the field; moved-from fields are never viewed.", "DESIGN.md section 4 C12"),
    "C13": ("exploration", "generate-compile-RUN of every API member per generated stack under ASan+UBSan, per-member compile attribution; compiler verdict for the ill-kinded catalogue",
            "For each generated well-kinded stack every member the property lists is compiled and executed, and the resulting field checked against the reference "
            "interpreter; compile failures are attributed to the member; the CUDA array backend is exercised under a host shim; a catalogue of ill-kinded compositions "
            "(each with a well-kinded twin) must be rejected by the compiler.",
            "The ill-kinded half has no execution to monitor (compiler exit status/diagnostics only); conversion demanded only for the family with converting constructors.",
            "DESIGN.md section 4 C13"),
    "C15": ("exploration", "ASan+UBSan+LSan and valgrind memcheck over the same seeded programs in four build configurations + cross-configuration result digests",
            "Generated per-stack programs and random ownership histories run under {assertions on, -O2 NDEBUG} x {ASan+UBSan, memcheck}; any report/assertion is a "
            "violation; digests of every value read must be identical across the four configurations.",
            "UB without a dynamic footprint is out of reach; domain filter = reference interpreter.", "DESIGN.md section 4 C15"),
    "C16": ("exploration", "ThreadSanitizer happens-before analysis + per-thread digests against a sequential execution",
            "2..16 reader threads (shared and per-thread views) plus writers to disjoint cells of the same storage over every storage order and interpolator, with "
            "random yields; TSan reports with covfie frames are violations; digests must equal the sequential run; overlap evidenced by a relaxed ticket counter.",
            "Happens-before analysis of the executions performed, not schedule enumeration; OpenMP/CUDA runtimes out of reach.", "DESIGN.md section 4 C16"),
    "C14": ("exploration", SAN + "independent curve references (128-bit row-major, per-bit interleave, inverse Hilbert walk)",
            "Exhaustive over small bit-widths / extent boxes / Hilbert squares up to k, boundary bit patterns and random beyond; BMI2 (pdep) and portable paths "
            "compared with each other and with the reference in +bmi2 and plain builds; positions observed through the layers over identity<size1>, for row-major also on the field reloaded from its own dump.",
            "Trusts harness/refs.hpp; coordinates above 2^floor(64/N) are out of the stated domain.", "DESIGN.md section 4 C14"),
    "C18": ("exploration", SAN + "exhaustive differential oracle",
            "Exhaustive at 8 and 16 bits (and all 2^31 32-bit inputs in the thorough tier), boundary+random at 32/64 bits, "
            "every extent box up to the bound for the sizing consequence.",
            "Trusts the reference arithmetic in harness/refs.hpp (unsigned __int128); 64-bit inputs are sampled, not enumerated.",
            "DESIGN.md section 4 C18"),
    "C19": ("exploration", SAN + "callback trace recorder with set oracle",
            "Every extent vector with entries 0..B for 1..5 dimensions and five tuple types, plus random larger boxes and boxes too large to finish; the recorded tuple multiset is compared with the box; the callback is handed over in twelve forms (closures owning state, std::function, functors, callbacks that return a value).",
            "Order of visits is not asserted (the property states none).", "DESIGN.md section 4 C19"),
    "C20": ("exploration", "generated tables of the metaprogram's outputs checked at run time against std::sort / std::is_permutation",
            "All sequences up to length 4 (6 thorough) over 5 symbols for sorting and all pairs up to length 3 (4) over 4 symbols for the predicate, plus random long "
            "sequences with 63-bit values; outputs are ordinary constants compared at run time, so a wrong result is a replayable row.",
            "The metaprogram executes inside g++ 12; a row that fails to compile is a violation, not a skip.", "DESIGN.md section 4 C20"),
}

NOT_YET = {}


def build():
    with open(os.path.join(core.VERIF, "properties.jsonl")) as fh:
        props = [json.loads(l) for l in fh if l.strip()]
    checks, na = [], []
    for p in props:
        pid = p["id"]
        if pid in CHECKS:
            cat, tech, text, note, ref = CHECKS[pid]
            checks.append({
                "property_id": pid,
                "quick_cmd": "bin/vcheck %s --tier quick" % pid,
                "thorough_cmd": "bin/vcheck %s --tier thorough" % pid,
                "evidence_file": "/verif/evidence/%s.json" % pid,
                "replay_cmd_template": "bin/vcheck %s --replay {path}" % pid,
                "engine": "vcheck",
                "level_claimed": {"category": cat, "text": text, "design_ref": ref},
                "level_note": note,
                "technique": tech,
            })
        else:
            na.append({"property_id": pid, "reason": NOT_YET.get(pid, "check not built yet (work in progress; runtime monitoring is applicable, see DESIGN.md)")})
    return {
        "version": 1,
        "setup_cmd": "python3 bin/vsetup",
        "hooks": {"guard": "COVFIE_VERIF", "enable": "no source hooks are needed: every event is observed at the public boundary (views, streams, user-defined probe backends) or by a sanitizer; checks compile harnesses directly against /repo/lib",
                  "baseline_off_cmd": BASELINE, "source_commits": [], "add_only": True},
        "engines": [{"name": "vcheck", "path": "bin/vcheck", "serves_properties": sorted(CHECKS),
                     "kind_free_text": "Python driver: content-hashed build cache over /repo/lib, g++ sanitizer/valgrind build matrix, watchdogged harness runs, line protocol from C++ monitors, known-findings matching, evidence writer"}],
        "checks": checks,
        "not_applicable": na,
        "notes": "Runtime monitoring and sanitizers only. See DESIGN.md. known_findings.json lists genuine covfie defects (open/fixed).",
    }


if __name__ == "__main__":
    doc = build()
    with open(os.path.join(core.VERIF, "MANIFEST.json"), "w") as fh:
        json.dump(doc, fh, indent=1)
    print("MANIFEST.json: %d checks, %d not_applicable" % (len(doc["checks"]), len(doc["not_applicable"])))
