"""C04 -- nearest-neighbour returns the value at a lattice point within 1/2 on every axis (float and double)."""
import os
from vlib import core

LEVEL = "exploration"
SRC = os.path.join(core.HARNESS, "c04_nearest.cpp")


def run(ctx):
    ctx.run_shards([
        dict(name="float/asan-dbg", src=SRC, flavour="asan-dbg", defines=["SH_FLOAT"]),
        dict(name="double/asan-dbg", src=SRC, flavour="asan-dbg", defines=["SH_DOUBLE"]),
        dict(name="float/asan-rel", src=SRC, flavour="asan-rel", defines=["SH_FLOAT"], primary=False),
        dict(name="double/asan-rel", src=SRC, flavour="asan-rel", defines=["SH_DOUBLE"], primary=False),
        # Morton beneath the interpolator takes its pdep path only in a BMI2 build
        dict(name="double/asan-dbg+bmi2", src=SRC, flavour="asan-dbg+bmi2", defines=["SH_DOUBLE"], primary=False),
    ], timeout=3600)
    return ctx.finish(
        rule=("nearest_neighbour<identity<idxN>, realN> (returns the chosen lattice point) for N 1..4, real in {float,double}, idx in "
              "{size_t,int,unsigned}: every half-integer h+1/2 for h < 2^12 (2^16 thorough) and h = 2^k-1 up to the mantissa width, each with "
              "its two neighbouring representable values; integers; for double also 2^24, 2^25, 2^32, 2^40 +-3 (+1/2, +-ulp): values a float "
              "cannot hold; uniform random in (-0.5, 2^e-0.5).  Distance |p_k-x_k| <= 1/2 decided exactly in binary128.  Array-backed "
              "nn<strided<array>> N 1..3 and nn<morton<array>> (both index paths, plain and -mbmi2 builds; one elongated field with axis indices beyond 16/128/256 per instantiation) N 2..4 with a unique id per cell: the returned id is decoded to its cell and the same test applied; every identity-backed lookup repeated through the variadic at(c0, c1, ...) with arguments of mixed exact types.  Probe-backed "
              "nn<strided<probe<VALUE>>> for value types float/double/unsigned char/short, extents up to 2^22 (float coordinates) / 2^40 (double), "
              "coordinates around 2^8, 2^16 and 2^24: the flat index READ is decoded and tested the same way (the chosen cell must not depend on the value type). "
              "non-trivial: some component within 2 ulp of a half-integer or not representable in float; distinct = hash of (instantiation, x)"),
        assumptions=["default rounding mode (round-to-nearest) only", "coordinates lie in (-0.5, extent-0.5) and inside the index type",
                     "either neighbour is accepted on an exact tie (the property does not fix the tie direction)"])
