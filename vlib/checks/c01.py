"""C01 -- storage-order layers behave as an N-dimensional array."""
import os
from vlib import core

LEVEL = "exploration"
SRC = os.path.join(core.HARNESS, "c01_storage.cpp")
IDX = [("size_t", "std::size_t"), ("unsigned", "unsigned"), ("int", "int")]


def run(ctx):
    sh = []
    for tag, ty in IDX:
        sh.append(dict(name="strided<%s>/asan-dbg" % tag, src=SRC, flavour="asan-dbg", defines=["SH_STRIDED", "SH_I=%s" % ty]))
        sh.append(dict(name="strided<%s>/asan-rel" % tag, src=SRC, flavour="asan-rel", defines=["SH_STRIDED", "SH_I=%s" % ty], primary=False))
        sh.append(dict(name="morton<%s>/asan-dbg+bmi2" % tag, src=SRC, flavour="asan-dbg+bmi2", defines=["SH_MORTON", "SH_I=%s" % ty]))
        sh.append(dict(name="morton<%s>/asan-rel" % tag, src=SRC, flavour="asan-rel", defines=["SH_MORTON", "SH_I=%s" % ty], primary=False))
    sh.append(dict(name="hilbert/asan-dbg", src=SRC, flavour="asan-dbg", defines=["SH_HILBERT"]))
    sh.append(dict(name="hilbert/asan-rel", src=SRC, flavour="asan-rel", defines=["SH_HILBERT"], primary=False))
    for fl, prim in (("asan-dbg+bmi2", True), ("asan-rel", False)):
        sh.append(dict(name="full-range-narrow-coordinates/%s" % fl, src=SRC, flavour=fl, defines=["SH_STRIDED", "SH_MORTON", "SH_HILBERT", "SH_NARROW"], primary=prim))
    ctx.run_shards(sh, timeout=7200)
    return ctx.finish(
        rule=("layers {strided, morton<use_bmi2=true> (pdep path in the +bmi2 build), morton<false>, hilbert (N=2)} x N 1..4 x coordinate "
              "{size_t, unsigned, int} x (storage, M) in {(float,1),(double,3)} (size_t also (double,2),(float,4)).  (a) array-backed: EVERY "
              "extent vector in 1..B_N (64/12/6/4 quick, 256/24/10/6 thorough): unique id written to every component of every cell through "
              "the view, all read back, one random cell overwritten, all re-read, then (two of three extent vectors) the field copy-assigned over a field with other extents and all cells read back through the new field, one written there; curve storage = (pow2 >= max extent)^N as the library's "
              "conversions allocate; ASan + library bounds assertions on.  (b) probe-backed: random extents up to 2^20 per axis (storage up "
              "to 2^62 cells, none allocated), boundary (0, extent-1, 2^k, 2^k-1) and random in-range coordinates: every flat index < storage "
              "length and no two distinct coordinates share one.  (c) 8- and 16-bit coordinate types over their full range: one axis of extent 2^bits, 2^bits-1 "
              "or 2^(bits-1)+1 (the extent itself not representable in the coordinate type), the others 1, 3, 4 or equal; (a) where the storage "
              "fits, (b) always.  non-trivial: extents not a power-of-two cube; distinct = hash of "
              "(instantiation, extents)"),
        assumptions=["for unsigned/int coordinates the extents are bounded so the flat index fits the coordinate type (the row-major layer accumulates in it)",
                     "extents whose storage does not fit memory are covered through the probe (index arithmetic) only"],
        exhaustive=True, extra_coverage={"exhaustive_scope": "all extent vectors up to B_N for every instantiation (part a)"})
