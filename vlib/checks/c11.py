"""C11 -- out-of-range lookups return the default without querying the backend."""
import os
from vlib import core

LEVEL = "exploration"
SRC = os.path.join(core.HARNESS, "c11_backup.cpp")


def run(ctx):
    ctx.run_shards([
        dict(name="int/asan-dbg", src=SRC, flavour="asan-dbg", defines=["SH_INT"]),
        dict(name="real/asan-dbg", src=SRC, flavour="asan-dbg", defines=["SH_REAL"]),
        dict(name="int/asan-rel", src=SRC, flavour="asan-rel", defines=["SH_INT"], primary=False),
        dict(name="real/asan-rel", src=SRC, flavour="asan-rel", defines=["SH_REAL"], primary=False),
    ], timeout=3600)
    return ctx.finish(
        rule=("backup<probe::nd<V^N, float^M>> for V in {unsigned,size_t,int,float,double}, (N,M) over 8 pairs incl. N != M (all 16 for size_t "
              "and float): seeded random closed boxes (incl. degenerate lo=hi, negative bounds); per axis the catalogue {lo, lo+-1step, hi, "
              "hi+-1step, midpoint, type max/lowest, 0, +-inf, denorm_min, -0} crossed over the axes (complete when <= 4096 tuples, sampled "
              "otherwise).  The probe backend counts the queries it receives and returns an injective function of the coordinate: outside => "
              "default value and 0 queries, inside => the probe's value (obtained by querying the backend at least once).  backup<strided<array>> N 1..4 under ASan with "
              "coordinates at, next to and far beyond the box (incl. SIZE_MAX); some cells hold NaN / -inf / -0 and are compared bit-wise with what was "
              "stored; every second field is looked up through a dumped and reloaded copy; the field's dump is byte-identical after the lookups.  non-trivial: some component equal or adjacent to a bound; "
              "distinct = hash of (instantiation, box, coordinate)"),
        assumptions=["NaN coordinates excluded (as the property states)", "box membership evaluated in long double, exact for every value generated"])
