"""C06 -- dumping a field and loading it back reproduces it exactly (bitwise), and re-dumps to the same bytes."""
import os

from gen import fmt, zoo
from vlib import core, zoorun

LEVEL = "exploration"


def run(ctx):
    stacks = zoo.select(ctx.seed + 2000, ctx.tier, limit=1500 if ctx.thorough else 130)
    import random
    xr = random.Random(ctx.seed * 31 + 6)
    for st in stacks[::2]:
        st.make_exotic(xr)   # every second stack: configuration values that a detour through another precision would change
    sh = zoorun.make_shards(ctx, stacks, "zio::drive_c06<{Z}>();", "c06", flavour="asan-dbg", extra_include="zoo_io.hpp")
    sh += zoorun.make_shards(ctx, stacks[:len(stacks) if ctx.thorough else 48], "zio::drive_c06<{Z}>();", "c06", flavour="asan-rel",
                             extra_include="zoo_io.hpp", primary=False)
    narrow = os.path.join(core.HARNESS, "c06_narrow.cpp")
    sh.append(dict(name="narrow-index/asan-dbg", src=narrow, flavour="asan-dbg"))
    sh.append(dict(name="narrow-index/asan-rel", src=narrow, flavour="asan-rel", primary=False))
    runs = ctx.run_shards(sh, timeout=7200)
    # every dump is also fed to the independent format parser
    by_name = {s.name(): s for s in stacks}
    parsed = 0
    for r in runs:
        if r is None:
            continue
        for line in r.lines.get("@DUMP", []):
            name, _, hx = line.partition("\t")
            st = by_name.get(name)
            if st is None:
                continue
            try:
                fmt.parse(bytes.fromhex(hx), st.fmt_descriptor())
                parsed += 1
            except fmt.FormatError as ex:
                ctx.violation("grammar:%s" % "/".join(l["kind"] for l in st.layers), "%s: dump does not follow the format grammar: %s" % (st.full_type(), ex), shard=r.name, flavour=r.flavour)
    ctx.stats["dumps_accepted_by_independent_parser"] = parsed
    return ctx.finish(
        rule=("every generated stack (gen/zoo.py, seed offset 2000: array, constant, identity, strided, morton, hilbert, clamp, backup, affine, "
              "shuffle, cast, dereference and both interpolators in pairwise-adjacent combinations; thorough: all kind sequences to depth 4 + "
              "sampled depth 5) with random extents and configuration values (negative box bounds, singular matrices; for every second stack also non-dyadic, float-subnormal, huge and negative-zero members); array storage "
              "filled with bit patterns drawn from {+-0, subnormals, +-inf, quiet and signalling NaNs with random payloads, random bits} via "
              "memcpy.  dump -> load -> compare every layer's configuration with the values passed in, every stored scalar BITWISE through the "
              "get_backend() chain, second dump byte-identical, stream consumed exactly; every dump is also parsed by the independent Python "
              "reader of the nested grammar.  Plus arrays with a narrow INDEX type (uint8/uint16/unsigned/int) at lengths up to and including "
              "the full index range (256, 65536) with random bit patterns.  Plus fields WITHOUT cells: a zero extent in any position, a zero-length array, default-constructed fields (dump, reload, stream consumed, re-dump and the dump of a copy byte-identical).  non-trivial: round holding >= 1 special bit pattern (or a storage-free stack); distinct = hash of "
              "(stack description, round)"),
        assumptions=["x86-64: scalar copies go through SSE moves which preserve signalling-NaN payloads (checked at -O1 and -O2 by this very run)",
                     "bit patterns are compared with memcmp, never with operator== (NaN)"],
        extra_coverage={"zoo": zoorun.describe(stacks)})
