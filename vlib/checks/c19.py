"""C19 -- nd_map visits every index tuple exactly once."""
import os
from vlib import core

LEVEL = "exploration"
SRC = os.path.join(core.HARNESS, "c19_ndmap.cpp")


def run(ctx):
    ctx.run_shards([
        dict(name="ndmap/asan-dbg", src=SRC, flavour="asan-dbg"),
        dict(name="ndmap/asan-rel", src=SRC, flavour="asan-rel", primary=False),
    ])
    return ctx.finish(
        rule=("all extent vectors with entries in 0..B for dimensionality 1..5 (size_t: B=64/12/4/4/4 quick, 300/24/8/6/6 thorough; "
              "int, unsigned, unsigned char, long tuples at 2..5 dims), plus seeded random vectors with product <= 2*10^5, plus boxes of 8- and 16-bit tuples whose cell count is a multiple of 2^bits; the callback "
              "records every tuple; boxes far too large to finish (an extent of 2^31, 2^32+3, 2^40 in some position, size_t / long / unsigned / int tuples): the first "
              "3000 (thorough 20000) callbacks are observed (inside, distinct, not fewer) and the callback then stops the walk by throwing; every exhaustive box of <= 3 dimensions (half of the others, a quarter of the random ones) is also walked with a hostile "
              "callback that overwrites the CALLER'S extent object half-way (zeroes it / enlarges it): the box to visit is the one passed at the call; oracle: count == product, all inside, sorted-unique has no duplicate (order not checked). "
              "non-trivial = >= 2 dimensions and extents not all equal; distinct = hash of (tuple type, extents)"),
        assumptions=["order of visits is not part of the property and is not asserted",
                     "extents of random cases are capped so the product fits memory"],
        exhaustive=True, extra_coverage={"exhaustive_scope": "the 0..B boxes; random part sampled"})
