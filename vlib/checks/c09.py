"""C09 -- affine layer maps x to A.x+t; transforms compose as functions; factories."""
import os
from vlib import core

LEVEL = "exploration"
SRC = os.path.join(core.HARNESS, "c09_affine.cpp")


def run(ctx):
    ctx.run_shards([
        dict(name="affine/asan-dbg", src=SRC, flavour="asan-dbg"),
        dict(name="affine/asan-rel", src=SRC, flavour="asan-rel", primary=False),
    ], timeout=3600)
    return ctx.finish(
        rule=("N in 1..4 x {float,double}: seeded random chains of 1..4 affine transforms (general, diagonal, shear and permutation generators), "
              "both association orders, applied to a vector and compared with function composition (rightmost first) evaluated in binary128. "
              "Exact tier: integer entries in -8..8 (-3..3 for chains of 3-4), every operation exact in float => equality. Rounded tier: entries "
              "+-2^[-20,20] (2^[-8,8] for longer chains), bound 4*gamma_{(N+2)len}(u) * (|A1|..|Ak||x|)_i from running error analysis. Factories "
              "translation/scaling/identity compared entry-wise with the textbook matrices, scaling*translation as the examples build it; the "
              "layer affine<identity<realN>> through both view lookup forms, and affine over a probe backend with M != N outputs that returns an "
              "injective function of the coordinate it is asked for (every one of the N components of A.x+t must reach the backend). non-trivial: not the identity and (for products) the first two "
              "factors do not commute on the operand; distinct = hash of (instantiation, matrices, operand)"),
        assumptions=["rounded tier: no intermediate overflow/underflow by construction of the exponent ranges",
                     "binary128 reference is exact for the exact tier and has 113-bit precision for the rounded tier"])
