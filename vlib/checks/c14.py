"""C14 -- storage orders follow their published curves (row-major, Morton bmi2==portable==interleave, Hilbert)."""
import os
from vlib import core

LEVEL = "exploration"
SRC = os.path.join(core.HARNESS, "c14_curves.cpp")


def run(ctx):
    ctx.run_shards([
        dict(name="rowmajor/asan-dbg", src=SRC, flavour="asan-dbg", defines=["SH_ROWMAJOR"]),
        dict(name="rowmajor/asan-rel", src=SRC, flavour="asan-rel", defines=["SH_ROWMAJOR"], primary=False),
        dict(name="morton/asan-dbg+bmi2", src=SRC, flavour="asan-dbg+bmi2", defines=["SH_MORTON"]),
        dict(name="morton/asan-rel+bmi2", src=SRC, flavour="asan-rel+bmi2", defines=["SH_MORTON"], primary=False),
        dict(name="morton/asan-dbg", src=SRC, flavour="asan-dbg", defines=["SH_MORTON"], primary=False),
        dict(name="hilbert/asan-dbg", src=SRC, flavour="asan-dbg", defines=["SH_HILBERT"]),
        dict(name="hilbert/asan-rel", src=SRC, flavour="asan-rel", defines=["SH_HILBERT"], primary=False),
    ], timeout=1800)
    nb, k = (24, 10) if ctx.thorough else (20, 8)
    return ctx.finish(
        rule=("row-major: strided<idxN, identity<size1>> for idx in {size_t, unsigned, int}, N 1..4: every extent vector in 1..B_N x every "
              "in-range coordinate, plus random extent vectors whose product fits the coordinate type (boundary and random coordinates), against "
              "sum_k c_k prod_{l>k} N_l in 128-bit.  Morton: static index functions of morton<..,true> and morton<..,false> (a +bmi2 build takes the "
              "pdep path for `true`; a plain build takes the portable path for both) against a per-bit interleave: every coordinate below 2^b with "
              "N*b <= %d, single-bit / all-ones patterns at every usable bit position, random full-width coordinates; the same through views over "
              "identity<size1>.  Hilbert: every cell of the 2^k square for k <= %d through the view: bijection by table, d(0,0)=0, Manhattan "
              "distance 1 between consecutive positions, and equality with the published inverse walk d2xy.  non-trivial: >= 2 non-zero "
              "coordinate components (and unequal extents for row-major); distinct by enumeration (exhaustive parts) or hash (random parts)") % (nb, k),
        assumptions=["coordinates are below 2^floor(64/N) per axis and non-negative, as the property states",
                     "for unsigned/int coordinates the row-major extents are bounded so the flat position fits the coordinate type (the layer accumulates in it)",
                     "BMI2 path exercised because the sandbox CPU has BMI2; shards built with -mbmi2 define HAVE_BMI2"],
        exhaustive=True, extra_coverage={"exhaustive_scope": "extent boxes, Morton coordinates below 2^(%d/N), Hilbert squares up to k=%d" % (nb, k)})
