"""C05 -- changing representation preserves the field."""
import os
from vlib import core

LEVEL = "exploration"
SRC = os.path.join(core.HARNESS, "c05_convert.cpp")
NAMES = ["strided", "morton-bmi2", "morton-portable", "hilbert"]


def run(ctx):
    sh = []
    for i, n in enumerate(NAMES):
        sh.append(dict(name="from-%s/asan-dbg+bmi2" % n, src=SRC, flavour="asan-dbg+bmi2", defines=["SH_SRC=%d" % i]))
        sh.append(dict(name="from-%s/asan-rel" % n, src=SRC, flavour="asan-rel", defines=["SH_SRC=%d" % i], primary=False))
    sh.append(dict(name="host-to-cuda-shim/asan-dbg", src=SRC, flavour="asan-dbg", defines=["SH_CUDA"], cuda_shim=True))
    ctx.run_shards(sh, timeout=7200)
    return ctx.finish(
        rule=("all ordered pairs (source, target) over {strided, morton<use_bmi2=true>, morton<false>, hilbert(N=2)} (identity pairs included), "
              "N 1..4, (storage, M) in {(float,1),(double,3)}: EVERY extent vector in 1..B_N (64/12/6/4 quick, 256/24/10/6 thorough), plus listed large extents for N = 1, 2 whose padded curve side is 1024, 2048, 4096 (513, 600, 777, 1023, 1025, 2049, 4097; 513x2, 3x600, 1025x1, 2x1027, 520x3, 31x33, 1x2049); source "
              "filled with a unique id per cell component; checked: converted field reports the same extents, holds the same value at every "
              "lattice coordinate; the source is unchanged and shares no storage with the copy; A->B->A reproduces values and extents; "
              "move-conversion; the same with the STORED SCALAR TYPE changing too (float<->double) into every storage order. Whole stacks affine<I1<L1<array>>> -> affine<I2<L2<array>>> (I in {nearest, linear}) "
              "with a random transform: transform and extents preserved, every lattice value equal at the storage-order level and through the "
              "whole stack with the identity transform; copied from an lvalue and converted from an rvalue (field<B> b(std::move(a))); cross-precision.  Host array -> cuda_device_array compiled against a host shim of the CUDA runtime "
              "(malloc/memcpy/free, counted) under ASan.  non-trivial: different source and target layers and extents not a power-of-two cube; "
              "distinct = hash of (pair, extents)"),
        assumptions=["the innermost array length is never asserted (any amount covering the largest curve position is correct; C18 checks that bound, ASan every access)",
                     "padding cells are never read by the oracle",
                     "CUDA path: host shim only - exercises the conversion constructor and index arithmetic, says nothing about a real device"],
        exhaustive=True, extra_coverage={"exhaustive_scope": "all extent vectors up to B_N for every pair"})
