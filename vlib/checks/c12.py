"""C12 -- fields stay independent values under any history of copy, move, assign, convert, dump/load, destroy."""
import os
from vlib import core

LEVEL = "exploration"
SRC = os.path.join(core.HARNESS, "c12_history.cpp")


def run(ctx):
    sh = []
    for i, pair in enumerate(["strided,morton", "strided,hilbert", "morton,hilbert", "affine-nn-strided,strided1d"]):
        sh.append(dict(name="exhaustive<%s>/asan-dbg" % pair, src=SRC, flavour="asan-dbg", defines=["SH_EXHAUSTIVE=%d" % i]))
        sh.append(dict(name="exhaustive<%s>/asan-rel" % pair, src=SRC, flavour="asan-rel", defines=["SH_EXHAUSTIVE=%d" % i], primary=False))
    sh.append(dict(name="random/asan-dbg", src=SRC, flavour="asan-dbg", defines=["SH_RANDOM"]))
    sh.append(dict(name="random/asan-rel", src=SRC, flavour="asan-rel", defines=["SH_RANDOM"], primary=False))
    ctx.run_shards(sh, timeout=7200)
    L = 4 if ctx.thorough else 3
    return ctx.finish(
        rule=("operations {construct(type, extents), default-construct (row-major types; default-initialised in memory holding other bytes, then moved into the slot), write (fresh unique id, through a fresh view), copy-construct, move-construct, copy-assign, "
              "move-assign (both incl. self-assignment), convert-copy, convert-move (between the three 2-D storage orders), dump+load, two fields built one after the other from one NAMED copy of the source's storage (second kept), destroy} over "
              "slots holding strided / morton / hilbert 2-D float3 fields (three components over two coordinates), affine<nearest_neighbour<strided>> (wrapper layers' implicit special "
              "members) and a 1-D double field.  EXHAUSTIVE: every enabled history of length <= %d over 2 slots, 2 types, 3 extent vectors (2x3, 5x2, and 3x0: a field with no cells) "
              "(40-letter concrete alphabet, four type pairs), each replayed from an empty pool; SEEDED RANDOM: histories of 200 operations on "
              "4 slots over all five types.  After EVERY operation every live field is compared with an ND-array model at every cell, through a "
              "fresh view and through the long-lived view made when it last acquired storage; moved-from slots are dead (may only be destroyed "
              "or assigned to).  Monitors: ASan (use-after-free, double free, overflow), LeakSanitizer (recoverable check per batch and at exit), "
              "UBSan, in assertion-enabled and NDEBUG builds.  non-trivial: history with >= 1 ownership operation after >= 1 write; distinct = "
              "hash of the operation sequence") % L,
        assumptions=["self-assignment (copy and move) must leave the field unchanged, as the property lists it among the operations of a history",
                     "moved-from fields are never viewed"],
        exhaustive=True, extra_coverage={"exhaustive_scope": "all enabled histories of length <= %d over the 40-letter alphabet for four type pairs" % L})
