"""C13 -- every well-kinded composition supports the whole field API; ill-kinded ones are rejected at compile time."""
import hashlib
import os
import random
import re

from gen import zoo
from vlib import core, zoorun

LEVEL = "exploration"
OPS = ["construct", "view", "at", "copy", "move", "copy-assign", "move-assign", "configuration", "dump", "load", "convert", "construct-from-extents"]

HDR = r'''
#include <covfie/core/backend/primitive/array.hpp>
#include <covfie/core/backend/primitive/identity.hpp>
#include <covfie/core/backend/transformer/affine.hpp>
#include <covfie/core/backend/transformer/hilbert.hpp>
#include <covfie/core/backend/transformer/linear.hpp>
#include <covfie/core/backend/transformer/nearest_neighbour.hpp>
#include <covfie/core/backend/transformer/strided.hpp>
#include <covfie/core/field.hpp>
#include <covfie/core/field_view.hpp>
namespace cb = covfie::backend; namespace cv = covfie::vector;
'''
USE = "using F = covfie::field<B>; static_assert(sizeof(F) > 0 && sizeof(typename F::view_t) > 0); int main() { return 0; }\n"
AFF4 = "cb::affine<cb::affine<cb::affine<cb::affine<cb::identity<cv::float4>>>>>"
AFF2 = "cb::affine<cb::affine<cb::identity<cv::float4>>>"
# (name, ill-kinded program, expected diagnostic fragment, well-kinded twin)
CATALOGUE = [
    ("nn-integer-coordinate", "using B = cb::nearest_neighbour<cb::strided<cv::size2, cb::array<cv::float1>>, cv::vector_d<int, 2>>;" + USE,
     "Nearest neighbour interpolation contravariant input must have a", "using B = cb::nearest_neighbour<cb::strided<cv::size2, cb::array<cv::float1>>, cv::float2>;" + USE),
    ("linear-integer-coordinate", "using B = cb::linear<cb::strided<cv::size2, cb::array<cv::float1>>, cv::vector_d<int, 2>>;" + USE,
     "Linear interpolation contravariant input must have a", "using B = cb::linear<cb::strided<cv::size2, cb::array<cv::float1>>, cv::float2>;" + USE),
    ("linear-arity-mismatch", "using B = cb::linear<cb::strided<cv::size2, cb::array<cv::float1>>, cv::float3>;" + USE,
     "same size as the backend contravariant input", "using B = cb::linear<cb::strided<cv::size3, cb::array<cv::float1>>, cv::float3>;" + USE),
    ("nn-arity-mismatch", "using B = cb::nearest_neighbour<cb::strided<cv::size3, cb::array<cv::float1>>, cv::float2>;" + USE,
     "same size as the backend contravariant input", "using B = cb::nearest_neighbour<cb::strided<cv::size3, cb::array<cv::float1>>, cv::float3>;" + USE),
    ("linear-over-integer-values", "using B = cb::linear<cb::strided<cv::size2, cb::array<cv::int1>>, cv::float2>;" + USE,
     "Linear interpolation covariant input must have a", "using B = cb::linear<cb::strided<cv::size2, cb::array<cv::double1>>, cv::float2>;" + USE),
    ("hilbert-3d", "using B = cb::hilbert<cv::size3, cb::array<cv::float1>>;" + USE,
     "Number of dimensions for input must be exactly two", "using B = cb::hilbert<cv::size2, cb::array<cv::float1>>;" + USE),
    ("view-above-256-bytes", "using B = %s;" % AFF4 + USE, "Storage type is too large", "using B = %s;" % AFF2 + USE),
    ("scalar_d-of-width-2", "using S = cv::scalar_d<cv::float2>; static_assert(sizeof(typename S::vector_t) > 0); int main() { return 0; }\n",
     "Scalar type is only usable with vectors of size 1", "using S = cv::scalar_d<cv::float1>; static_assert(sizeof(typename S::vector_t) > 0); int main() { return 0; }\n"),
    ("array-of-size-0", "using A = covfie::array::array<float, 0>; static_assert(sizeof(A) >= 0); int main() { return 0; }\n",
     "_size > 0", "using A = covfie::array::array<float, 1>; static_assert(sizeof(A) > 0); int main() { return 0; }\n"),
]


def family_stacks(seed):
    """the conversion family, every member: [affine] [interp] order array"""
    out = []
    k = 0
    for aff in ((), ("r:affine",), ("i:affine",)):
        for it in ((), ("linear",), ("nn",)):
            if aff == ("r:affine",) and not it:
                continue
            if aff == ("i:affine",) and it:
                seqs = [it + aff]
            else:
                seqs = [aff + it]
            for pre in seqs:
                for o in zoo.ORDER:
                    seq = pre + (o, "array")
                    h = int(hashlib.sha256(("fam%d|%s" % (seed, "/".join(seq))).encode()).hexdigest()[:12], 16)
                    for attempt in range(8):
                        st = zoo.Stack(seq, random.Random(h + attempt), k + attempt)
                        if st.ok:
                            out.append(st)
                            break
                    k += 1
    return out


def run(ctx):
    stacks = zoo.select(ctx.seed + 5000, ctx.tier, limit=2600 if ctx.thorough else 130) + family_stacks(ctx.seed)
    sh = zoorun.make_shards(ctx, stacks, "zapi::drive_c13<{Z}>();", "api", flavour="asan-dbg", extra_include="zoo_api.hpp", with_partners=True)

    def attribute(shard, build):
        """a single-stack program did not compile: find the member(s) responsible"""
        st = shard.get("stack")
        if st is None:
            return False
        src = shard["src"]
        jobs = [dict(name="%s/op%d" % (shard["name"], k), src=src, flavour="syntax", defines=("API_ONLY=%d" % k,), is_text=True) for k in range(len(OPS))]
        res = ctx.compile_many(jobs)
        hit = False
        for k, b in enumerate(res):
            if b.ok:
                continue
            hit = True
            m = re.search(r"/lib/\w+/covfie/\w+/([\w/]+\.hpp):(\d+)", b.log)
            where = os.path.basename(m.group(1)) if m else "?"
            ctx.violation("compile:%s:%s" % (OPS[k], where), "%s [%s]: member '%s' does not compile: %s" % (st.full_type(), st.name(), OPS[k], core.first_error(b.log)),
                          shard=shard["name"], flavour="syntax", extra={"compile_log": b.log[-4000:]})
            break   # later members depend on earlier ones; the first failing member names the cause
        return hit

    ctx.run_shards(sh, timeout=7200, on_compile_fail=attribute)

    # members outside the zoo: one translation unit per member
    extra_src = os.path.join(core.HARNESS, "c13_extra.cpp")
    extra = [(0, "declared-ctor:clamp-default-box", False), (1, "declared-ctor:backup-default-box", False),
             (2, "cuda-shim:construct", True), (3, "cuda-shim:copy", True), (4, "cuda-shim:move", True), (5, "cuda-shim:copy-assign", True),
             (6, "cuda-shim:move-assign", True), (7, "cuda-shim:dump+load", True)]
    xs = [dict(name="extra/%s/asan-dbg" % key, src=extra_src, flavour="asan-dbg", defines=["PART=%d" % k], cuda_shim=shim) for k, key, shim in extra]

    def extra_fail(shard, build):
        key = shard["name"].split("/")[1]
        ctx.violation("compile:%s" % key, "member does not compile: %s" % core.first_error(build.log), shard=shard["name"], flavour=build.flavour,
                      extra={"compile_log": build.log[-4000:]})
        return True

    ctx.run_shards(xs, timeout=600, on_compile_fail=extra_fail)

    # well-kinded compositions at the edges of the kind rules (harness/c13_edges.cpp): array index types narrower than
    # size_t beneath every storage order (with and without -mbmi2), and stacks whose view state is exactly 256 bytes
    edges_src = os.path.join(core.HARNESS, "c13_edges.cpp")
    es = []
    for k, key in enumerate(["narrow-array-index:strided", "narrow-array-index:morton-bmi2", "narrow-array-index:morton-portable", "narrow-array-index:hilbert", "view-limit", "integer-array"]):
        es.append(dict(name="edges/%s/asan-dbg" % key, src=edges_src, flavour="asan-dbg", defines=["PART=%d" % k]))
        if k in (1, 2):
            es.append(dict(name="edges/%s/asan-dbg+bmi2" % key, src=edges_src, flavour="asan-dbg+bmi2", defines=["PART=%d" % k], primary=False))
        es.append(dict(name="edges/%s/asan-rel" % key, src=edges_src, flavour="asan-rel", defines=["PART=%d" % k], primary=False))

    def edge_fail(shard, build):
        key = shard["name"].split("/")[1]
        ctx.violation("compile:edge:%s" % key, "a well-kinded composition does not compile (%s): %s" % (build.flavour, core.first_error(build.log)), shard=shard["name"],
                      flavour=build.flavour, extra={"compile_log": build.log[-4000:]})
        return True

    ctx.run_shards(es, timeout=600, on_compile_fail=edge_fail)

    # ill-kinded catalogue: the compiler's verdict is the only observable
    jobs, meta = [], []
    for name, bad, frag, good in CATALOGUE:
        jobs.append(dict(name="illkinded/%s" % name, src=HDR + bad, flavour="syntax", is_text=True))
        jobs.append(dict(name="twin/%s" % name, src=HDR + good, flavour="syntax", is_text=True))
        meta.append((name, frag))
    res = ctx.compile_many(jobs)
    rejected_with_text = 0
    for i, (name, frag) in enumerate(meta):
        bad, good = res[2 * i], res[2 * i + 1]
        ctx.ev += 2
        if not good.ok:
            ctx.violation("illkinded:%s:well-kinded-twin-rejected" % name, core.first_error(good.log))
        if bad.ok:
            ctx.violation("illkinded:%s:accepted" % name, "a composition that violates the layer's stated kind compiled")
        elif frag in bad.log:
            rejected_with_text += 1
    ctx.stats["illkinded_entries"] = len(meta)
    ctx.stats["illkinded_rejected_with_the_librarys_own_diagnostic"] = rejected_with_text
    return ctx.finish(
        rule=("well-kinded half: generated stacks (gen/zoo.py seed offset 5000: pairwise adjacency cover / all kind sequences to depth 4 + sampled depth 5) "
              "plus every member of the conversion family [affine][interpolator] order array; for each stack a program constructs from a parameter "
              "pack (and default-constructs), makes a view (trivially copyable, <= 256 bytes, bitwise, copy-constructed and copy-assigned copies answer alike after the original view was zeroed and freed), looks up both forms, "
              "copy- and move-constructs, copy-assigns (incl. self), move-assigns, reads the configuration chain and rebuilds, dumps, loads, and "
              "converts (copy and move) from a compatible stack with another storage order and interpolator, and (row-major stacks) is built from a pack that ends with the extents, passed as a temporary and as a named object; every member is compiled AND run under "
              "ASan+UBSan with assertions on, and after every member the resulting field is compared with the reference interpreter.  A stack "
              "that does not compile is re-compiled one member at a time (-fsyntax-only) and reported as compile:<member>:<header>.  Assignments (copy, move, std::swap) "
              "are also made OVER a field of the same type holding other configuration values in every layer (zoo: make_other).  Edges of the kind rules, hand-written "
              "(harness/c13_edges.cpp): array index types narrower than size_t (uint8/16/32) beneath strided / morton<true> / morton<false> / hilbert, 1-4 "
              "dimensions, with and without -mbmi2; four stacks whose view state is exactly 256 bytes (the library's limit) or 240; integer-valued array storage (int / unsigned / long cells) beneath strided, morton and hilbert: whole API with value checks "
              "(an integer payload that cannot be dumped may be refused with an exception at run time, not at compile time).  Ill-kinded "
              "half: a catalogue of %d compositions that violate a stated kind must be rejected by the compiler, each with a well-kinded twin that "
              "must compile.  non-trivial: stack of depth >= 2; distinct = hash of the stack description") % len(CATALOGUE),
        assumptions=["the ill-kinded half has no execution to monitor: it is observed through the compiler's exit status and diagnostic text only (weakest evidence in this framework)",
                     "conversion is demanded only for the family the library implements converting constructors for (affine / interpolators / storage orders over array)",
                     "the default-box constructors of clamp and backup (extents taken from the backend) are not reachable through any member listed by the property; see known_findings.json"],
        extra_coverage={"zoo": zoorun.describe(stacks), "members": OPS})
