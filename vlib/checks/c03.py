"""C03 -- linear interpolation equals the exact N-linear interpolant over the input dimensions (N != M included)."""
import os
from vlib import core

LEVEL = "exploration"
SRC = os.path.join(core.HARNESS, "c03_linear.cpp")


def run(ctx):
    sh = []
    for n in (1, 2, 3, 4, 5):
        for r in ("float", "double"):
            d = ["SH_N=%d" % n, "SH_R=%s" % r] + (["SH_FULL"] if ctx.thorough else [])
            for fl, prim in (("asan-dbg", True), ("asan-rel", False)):
                split = [dict(name="N=%d,M=%d,coord=%s/%s" % (n, m, r, fl), src=SRC, flavour=fl, defines=d + ["SH_M=%d" % m], primary=prim)
                         for m in (1, 2, 3, 4)]
                sh.append(dict(name="N=%d,coord=%s/%s" % (n, r, fl), src=SRC, flavour=fl, defines=d, primary=prim, split=split))
    ctx.run_shards(sh, timeout=7200)
    return ctx.finish(
        rule=("linear<L<size_tN, array<storeM>>, coordN> for N 1..5 x M 1..4 independently (N != M included), coord and store in {float,double}, "
              "L in {strided, morton, clamp<strided>} (quick: 3 of the 6 (store,L) combinations per (N,M,coord), rotating; thorough: all 240). "
              "Per instantiation: seeded random extent vectors (every axis >= 2, the single-cell grid included); fields of non-affine random "
              "values with exponents up to 2^100 (2^900 when both types are double), one-hot fields and UNIFORM fields (each component one non-power-of-two "
              "constant: 60 000 / 400 000 extra lookups against the closed form); the clamp beneath is the whole grid or (every second field) a random SUB-BOX of it; every fourth field is interpolated after a trip through its own dump (the oracle keeps the original lattice values), every fourth after being copy-assigned over a field of the same type with other extents; coordinates: lattice points, cell centres, "
              "one ulp either side of lattice points, the top of the last cell, dyadic and uniform random; with a clamp beneath also far outside "
              "the grid (up to 9*10^18, incl. k*2^32 + small).  Oracle: exact sum in binary128 over the storage layer's own lattice values; |got-exact| <= "
              "2*gamma_k(u)*sum|w||v| + tiny, k = 2N+2^N+2, u the coarser unit roundoff; bit-equality with the stored value at lattice points; "
              "result inside the corner range.  In addition, over an index-recording probe storage with extents up to 2^20 per axis (no memory), the 2^N "
              "flat indices an interpolated lookup READS must be exactly those of the cell containing x (neighbour enumeration at coordinates no "
              "array-backed field reaches).  non-trivial: strictly interior fraction on >= 1 axis on non-affine data; distinct = hash of "
              "(instantiation, field, cell)"),
        assumptions=["stored magnitudes keep 2^27 headroom below overflow of the narrower type", "real coordinates >= 2^63 are excluded: the conversion to the index type is undefined from 2^64 on",
                     "the storage-order layer beneath is trusted only to the extent that the same layer view supplies the corner values to the oracle"])
