"""C18 -- round_pow2 / ipow exact at every width; Morton/Hilbert storage large enough."""
import os
from vlib import core

LEVEL = "exploration"
SRC = os.path.join(core.HARNESS, "c18_numeric.cpp")


def run(ctx):
    sh = [
        dict(name="numeric/asan-dbg", src=SRC, flavour="asan-dbg", defines=["SH_NUMERIC"]),
        dict(name="numeric/asan-rel", src=SRC, flavour="asan-rel", defines=["SH_NUMERIC"], primary=False),
        dict(name="sizing-morton/asan-dbg+bmi2", src=SRC, flavour="asan-dbg+bmi2", defines=["SH_SIZING_MORTON", "SH_PORTABLE"]),
        dict(name="sizing-morton/asan-rel", src=SRC, flavour="asan-rel", defines=["SH_SIZING_MORTON", "SH_PORTABLE"], primary=False),
        dict(name="sizing-hilbert/asan-dbg", src=SRC, flavour="asan-dbg", defines=["SH_SIZING_HILBERT"]),
    ]
    if ctx.thorough:
        parts = 16
        for p in range(parts):
            sh.append(dict(name="round32-all/%d" % p, src=SRC, flavour="asan-rel", defines=["SH_NUMERIC"],
                           args=["--part", str(p), str(parts)], timeout=3600))
    ctx.run_shards(sh)
    exhaustive32 = ctx.stats.get("round32_exhaustive_inputs", 0) == 2 ** 31
    return ctx.finish(
        rule=("round_pow2: every i in 1..2^(w-1) at w=8,16 (w=32: boundaries 2^k+-2 and log-uniform random; thorough: all 2^31), "
              "w=64 boundaries+random; non-trivial = i not a power of two.  ipow: all 2^16 pairs at w=8 (two oracles), all b x 64 e "
              "and all e x 64 b at w=16, edge x edge and random at w=32,64; non-trivial = b>=2 and e>=2.  Sizing: every extent vector "
              "in 1..B_N (quick 64/12/6/4, thorough 256/24/10/6; Hilbert 20^2 / 40^2) converted strided->curve; the same over storage whose ARRAY INDEX TYPE is 8/16/32 bits wide with extents whose padded curve "
              "fills that type's whole range (cell count 2^bits, largest position 2^bits-1): reported storage, every cell of the converted "
              "field, of a copy and of a dumped+reloaded copy; non-trivial = not a "
              "power-of-two cube.  distinct = hash of (function, width, arguments)."),
        assumptions=["round_pow2 is only called with 1 <= i <= 2^(w-1): beyond that it does not terminate (j wraps to 0); the property excludes it",
                     "oracles: bit counting for rounding; left-to-right modular exponentiation in unsigned __int128 and repeated multiplication at 8 bits",
                     "ipow<uint16_t> promotes to int and may overflow there; GCC's UBSan does not instrument it, so it is value-checked only",
                     "the largest Morton position of a box is taken at its far corner (bit-interleave is monotone per coordinate)"],
        exhaustive=True,
        extra_coverage={"exhaustive_scope": "w=8 and w=16 complete; extent boxes complete" + ("; w=32 round_pow2 complete" if exhaustive32 else "")})
