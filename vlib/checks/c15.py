"""C15 -- no undefined behaviour on the documented domain, in debug and release builds; both produce the same results."""
import os
from gen import zoo
from vlib import core, zoorun
from vlib.checks import c13

LEVEL = "exploration"
MATRIX = [("asan-dbg", True), ("asan-rel", False), ("vg-dbg", False), ("vg-rel", False)]


def run(ctx):
    stacks = zoo.select(ctx.seed + 6000, ctx.tier, limit=600 if ctx.thorough else 64) + c13.family_stacks(ctx.seed + 1)[::2 if not ctx.thorough else 1]
    hist = os.path.join(core.HARNESS, "c12_history.cpp")
    sh = []
    for fl, prim in MATRIX:
        sh += zoorun.make_shards(ctx, stacks, "zapi::drive_c15<{Z}>();", "programs", flavour=fl, extra_include="zoo_api.hpp", with_partners=True,
                                 primary=prim, per_shard=max(3, (len(stacks) + 11) // 12))
        sh.append(dict(name="histories/%s" % fl, src=hist, flavour=fl, defines=["SH_RANDOM", "SH_DIGEST"], primary=prim))
        # (c) 8-/16-bit coordinate types over their full range (the C01 part (c) workload): the library's own bounds
        # assertions compare coordinates with extents and must not reject (or mis-evaluate on) in-domain calls
        sh.append(dict(name="full-range-narrow-coordinates/%s" % fl, src=os.path.join(core.HARNESS, "c01_storage.cpp"), flavour=fl,
                       defines=["SH_STRIDED", "SH_MORTON", "SH_HILBERT", "SH_NARROW"], primary=False))
    runs = ctx.run_shards(sh, timeout=7200)
    # result digests must agree across the whole build matrix
    digests = {}
    for r in runs:
        if r is None:
            continue
        for line in r.lines.get("@DIGEST", []):
            name, _, dg = line.partition("\t")
            digests.setdefault(name, {})[r.flavour] = dg
    compared = 0
    for name, per in sorted(digests.items()):
        if len(per) == len(MATRIX):
            compared += 1
        if len(set(per.values())) > 1:
            ctx.violation("digest-differs:%s" % name.split(" ")[0], "program '%s' produced different results in different build configurations: %s" % (name, per))
    ctx.stats["programs_with_digest_in_all_four_configurations"] = compared
    ctx.nt = compared  # distinct programs whose digest was compared across all four flavours
    return ctx.finish(
        rule=("programs: (a) one per generated stack (gen/zoo.py seed offset 6000 + the conversion family): construct from a pack, fill, ~80 proposed "
              "lookups filtered to the documented domain by the reference interpreter, copy-construct, copy-assign, move-construct, dump, load, "
              "move-assign, convert from a compatible stack, with lookups after each step; (b) seeded random ownership histories (the C12 workload: "
              "construction, write, copy, assignment incl. self, conversion, dump+load, destroy; 120 operations each); (c) storage-order layers with 8- and 16-bit coordinate types used over their full range (axis extent "
              "2^bits: every coordinate is valid, the extent is not representable in the coordinate type), every cell written and read back.  Every program runs under the "
              "property's own matrix {-O1 assertions on, -O2 NDEBUG} x ASan+UBSan(+float-cast-overflow, LSan) and {-O0 assertions on, -O2 NDEBUG} x "
              "valgrind memcheck with identical seeds; any sanitizer report, library assertion or memcheck error is a violation, and the "
              "digest of every value read (and of the dump bytes) must be identical in all four.  distinct_nontrivial = number of distinct "
              "programs whose digest was present in and compared across all four configurations"),
        assumptions=["UB classes without a dynamic footprint (strict aliasing, unsequenced modification, ODR) are out of reach of these tools",
                     "GCC's UBSan does not instrument the uint16_t promotion overflow inside ipow (value-checked in C18)",
                     "bit-identical digests are expected because no build uses -march or -ffast-math (no FMA contraction, no re-association)"],
        extra_coverage={"zoo": zoorun.describe(stacks), "build_matrix": [m[0] for m in MATRIX]})
