"""C07 -- files are portable across interpolation method, storage precision and revisions."""
import hashlib
import json
import os

from gen import fmt, zoo
from vlib import core

LEVEL = "exploration"
GOLD = os.path.join(core.VERIF, "golden")


def golden_shards(ctx):
    with open(os.path.join(GOLD, "MANIFEST.json")) as fh:
        man = json.load(fh)
    parts = [zoo.PRELUDE, '#include "zoo_io.hpp"']
    calls = []
    for g in man:
        with open(os.path.join(GOLD, "g%02d.hpp" % g["id"])) as fh:
            parts.append(fh.read())
        calls.append('    zio::drive_golden<G%d>("%s");' % (g["id"], os.path.join(GOLD, "g%02d.bin" % g["id"])))
    parts.append("int main(int argc, char ** argv) {\n    vh::init(argc, argv);\n" + "\n".join(calls) + "\n    return vh::finish();\n}")
    src = "\n".join(parts)
    return man, [dict(name="golden/asan-dbg", src=src, is_text=True, flavour="asan-dbg"),
                 dict(name="golden/asan-rel", src=src, is_text=True, flavour="asan-rel", primary=False),
                 # the reader may be built with -mbmi2 (Morton's pdep path) while the writer was not: same cells expected
                 dict(name="golden/asan-dbg+bmi2", src=src, is_text=True, flavour="asan-dbg+bmi2", primary=False)]


def run(ctx):
    man, sh = golden_shards(ctx)
    # the committed golden bytes themselves: hashes and grammar (Python side, no covfie code involved)
    for g in man:
        with open(os.path.join(GOLD, "g%02d.bin" % g["id"]), "rb") as fh:
            data = fh.read()
        if hashlib.sha256(data).hexdigest() != g["sha256"]:
            ctx.harness_errors.append("golden file g%02d.bin does not match its manifest hash" % g["id"])
        try:
            fmt.parse(data, g["fmt"])
            ctx.stats["goldens_accepted_by_independent_parser"] = ctx.stats.get("goldens_accepted_by_independent_parser", 0) + 1
        except fmt.FormatError as ex:
            ctx.violation("golden-grammar:g%02d" % g["id"], "%s: %s" % (g["type"], ex))
    # cross-type pairs
    stacks = [s for s in zoo.select(ctx.seed + 4000, ctx.tier, limit=900 if ctx.thorough else 150) if s.has_interp() or s.store_matters()]
    stacks = stacks[:300 if ctx.thorough else 40]
    by_name = {}
    per = 4
    npairs = 0
    for b in range(0, len(stacks), per):
        group, calls = [], []
        for s in stacks[b:b + per]:
            fam = [s]
            for si, ss in ((True, False), (False, True), (True, True)):
                if (si and not s.has_interp()) or (ss and not s.store_matters()):
                    continue
                v = s.variant(si, ss)
                # the format grants width freedom to the array payload only: a layer whose own configuration is
                # typed by the stored scalar (the default value of an out-of-range-default layer) has another
                # footprint in the other precision, which makes the pair incompatible by format, not by defect
                if v.ok and v.io_signature() == s.io_signature():
                    fam.append(v)
            base = len(group)
            group += fam
            for i in range(len(fam)):
                for j in range(len(fam)):
                    calls.append("zio::drive_c07_pair<Z%d, Z%d>();" % (base + i, base + j))
                    npairs += 1
        for s in group:
            by_name[s.name()] = s
        src = zoo.translation_unit(group, 0, "zoo_io.hpp", None, extra_calls=calls)
        sh.append(dict(name="cross/batch%d/asan-dbg" % (b // per), src=src, is_text=True, flavour="asan-dbg"))
        if ctx.thorough or b < 3 * per:
            sh.append(dict(name="cross/batch%d/asan-rel" % (b // per), src=src, is_text=True, flavour="asan-rel", primary=False))
    # fields that hold no cells (zero extents, zero-length array, default-constructed): their streams follow the grammar too
    sh.append(dict(name="empties/asan-dbg", src=os.path.join(core.HARNESS, "c06_narrow.cpp"), flavour="asan-dbg", defines=("VERIF_EMPTIES_ONLY",)))
    sh.append(dict(name="empties/asan-rel", src=os.path.join(core.HARNESS, "c06_narrow.cpp"), flavour="asan-rel", defines=("VERIF_EMPTIES_ONLY",), primary=False))
    runs = ctx.run_shards(sh, timeout=7200)
    parsed = 0
    empties = 0
    for r in runs:
        if r is None:
            continue
        for line in r.lines.get("@EMPTY", []):
            name, spec, hx = line.split("\t")
            f = spec.split(",")
            desc = []
            if f[0] == "S":
                ext = [int(x) for x in f[3].split(":")]
                desc.append({"tag": 0xAB020010, "payload": 8 * len(ext), "extents": ext})
            desc.append({"tag": 0xAB010000, "array": True, "m": int(f[1]), "len": 0, "width": int(f[2])})
            try:
                fmt.parse(bytes.fromhex(hx), desc)
                empties += 1
            except fmt.FormatError as ex:
                ctx.violation("grammar:empty:%s" % name, "dump of a field without cells breaks the grammar: %s" % ex, shard=r.name, flavour=r.flavour)
    ctx.stats["empty_field_dumps_accepted_by_independent_parser"] = empties
    for r in runs:
        if r is None:
            continue
        for line in r.lines.get("@DUMP", []):
            name, _, hx = line.partition("\t")
            st = by_name.get(name)
            if st is None:
                continue
            try:
                fmt.parse(bytes.fromhex(hx), st.fmt_descriptor())
                parsed += 1
            except fmt.FormatError as ex:
                ctx.violation("grammar:%s" % "/".join(l["kind"] for l in st.layers), "%s: re-dump of a cross-loaded field breaks the grammar: %s" % (st.full_type(), ex), shard=r.name, flavour=r.flavour)
    ctx.stats["cross_dumps_accepted_by_independent_parser"] = parsed
    return ctx.finish(
        rule=("(a) %d ordered (writer, reader) pairs over %d generated stacks and their variants with the other interpolation method and/or the other "
              "storage precision (float<->double): writer storage holds exactly representable values, values that need rounding in both "
              "directions, exact ties with odd and even neighbours and values one ulp off a tie, values in the float subnormal range, signed zeros and values below the subnormal range (the sign survives) and just "
              "inside +-FLT_MAX; reader must load, keep every non-storage configuration, preserve values exactly when widening and produce the "
              "nearest float (ties to even, checked against the definition with binary128 distances) when narrowing; the reader's re-dump is "
              "parsed by the independent grammar reader.  (b) %d golden files written by the pinned revision 9bc2998 (committed under golden/ "
              "with the stack description, hash and expected configuration): each must load, report the recorded configuration and values, "
              "re-dump to the same bytes, and a field built today must dump to the same bytes; hashes and grammar are also checked without any "
              "covfie code.  (c) fields without cells (a zero extent in any position, a zero-length array, default-constructed fields): dump, reload, re-dump byte-identical, dump parsed by the independent grammar reader.  non-trivial: writer != reader and >= 1 value needing rounding (narrowing), or a golden; distinct = hash of "
              "(writer, reader, round)") % (npairs, len(stacks), len(man)),
        assumptions=["golden files were produced once by bin/mkgolden from a git worktree of the pinned commit; files of other revisions are out of reach",
                     "layers whose writer did not compile at the pinned revision (covariant_cast, dereference) write no tag of their own: the goldens of their backends pin their bytes too"],
        extra_coverage={"goldens": len(man), "cross_type_pairs": npairs})
