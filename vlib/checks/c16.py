"""C16 -- concurrent lookups are race-free (ThreadSanitizer happens-before analysis) and deterministic."""
import os
import re
from vlib import core

LEVEL = "exploration"
SRC = os.path.join(core.HARNESS, "c16_threads.cpp")


def tsan_reports(err, repo):
    """split stderr into report blocks; returns (covfie_reports, foreign_reports) as lists of (kind, signature).
    A report is covfie's when any frame lies under <repo>/lib or names a covfie:: symbol."""
    mine, foreign = [], []
    lib = os.path.join(repo, "lib")
    for blk in re.split(r"={18}\n", err):
        m = re.search(r"WARNING: ThreadSanitizer: ([^\n(]+)", blk)
        if not m:
            continue
        paths = re.findall(r"(/[^\s:()]+\.(?:hpp|cpp|h)):(\d+)", blk)
        in_covfie = any(p.startswith(lib) for p, _ in paths) or "covfie::" in blk
        sig = "|".join(sorted(set("%s:%s" % (os.path.basename(p), ln) for p, ln in paths if p.startswith(lib))))[:300] or "covfie-symbol"
        (mine if in_covfie else foreign).append((m.group(1).strip(), sig))
    return mine, foreign


def run(ctx):
    sh = [
        dict(name="strided/tsan", src=SRC, flavour="tsan", defines=["SH_STRIDED"]),
        dict(name="morton/tsan+bmi2", src=SRC, flavour="tsan+bmi2", defines=["SH_MORTON"]),
        dict(name="morton/tsan", src=SRC, flavour="tsan", defines=["SH_MORTON"], primary=False),
        dict(name="hilbert/tsan", src=SRC, flavour="tsan", defines=["SH_HILBERT"]),
    ]
    builds = ctx.compile_many([dict(name=s["name"], src=s["src"], flavour=s["flavour"], defines=tuple(s["defines"])) for s in sh])
    items = []
    for s, b in zip(sh, builds):
        if not b.ok:
            ctx.compile_failure(b, s["name"])
            continue
        items.append((s, dict(build=b, name=s["name"], timeout=7200)))
    # ThreadSanitizer shards run one after the other: each starts up to 18 threads on the 16 cores
    covfie_reports, foreign = 0, 0
    for s, it in items:
        r = ctx.run(**it)
        mine, other = tsan_reports(r.err, ctx.repo)
        foreign += len(other)
        seen = set()
        for kind, sig in mine:
            covfie_reports += 1
            if sig in seen:
                continue
            seen.add(sig)
            ctx.violation("%s:tsan:%s" % (s["name"], kind.replace(" ", "-")), "ThreadSanitizer report with covfie frames: %s\n%s" % (sig, core.tail(r.err, 2500)),
                          shard=s["name"], flavour=r.flavour)
        if mine or other:
            # reports already handled above; do not let the non-zero exit status count twice
            r.rc = 0 if r.done else r.rc
            r.err = ""
        ctx.absorb(r, shard=s["name"], count_nt=s.get("primary", True))
    if foreign:
        ctx.harness_errors.append("%d ThreadSanitizer report(s) without any covfie frame: the harness itself is suspect, the run is inconclusive" % foreign)
    ctx.stats["tsan_reports_with_covfie_frames"] = covfie_reports
    ctx.stats["tsan_foreign_reports"] = foreign
    ctx.total_builds, ctx.cached_builds, ctx.compile_secs = len(builds), sum(b.cached for b in builds), round(sum(b.secs for b in builds), 1)
    return ctx.finish(
        rule=("stacks {strided, morton<true> (pdep in the +bmi2 build), morton<false>, hilbert} x {bare, nearest_neighbour, linear, affine<linear>, "
              "affine<nearest_neighbour>} over 16^3 (hilbert: 64^2) float3 arrays; T in {2,4,8,16} reader threads on a shared view, per-thread views "
              "or a mix, plus 1-2 writer threads storing through a storage-order view of the SAME storage to a slab of cells no reader's corner "
              "cell can reach; 2000 seeded lookups per reader with random yields/spins; each configuration repeated %d times.  Oracles: "
              "ThreadSanitizer (happens-before, schedule-independent for the accesses performed; a report counts when a frame lies under "
              "$VERIF_REPO/lib) and per-thread result digests against a sequential execution of the same operation lists; writers' cells checked "
              "after join.  Further scenarios: two fields of different extents at once; cold start (first lookups of an instantiation made "
              "concurrently); a pool started before the field exists; T threads each on its own by-value COPY of a view whose original has "
              "been zeroed and freed; backup<>/clamp<> over storage holding NaN/inf/-0 cells swept by 6 and 16 threads with the concurrent "
              "phase first and the storage compared bit-wise afterwards (lookups never modify a field).  Overlap is shown by a ticket counter sampled with relaxed atomics (no happens-before edge).  non-trivial/distinct: "
              "distinct interleaving signature (thread order by ticket) in which >= 2 threads overlapped") % (20 if ctx.thorough else 3),
        assumptions=["race freedom is judged by happens-before analysis of the executions performed, not by schedule enumeration",
                     "field construction happens-before the threads via std::thread creation only; OpenMP/CUDA runtimes are out of reach",
                     "TSan reports without a covfie frame are logged as foreign, not counted as violations"],
        min_nt=2)
