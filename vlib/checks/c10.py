"""C10 -- clamping makes every coordinate safe."""
import os
from vlib import core

LEVEL = "exploration"
SRC = os.path.join(core.HARNESS, "c10_clamp.cpp")


def run(ctx):
    sh = []
    for part in ("IDENT_INT", "IDENT_REAL", "STORAGE", "INTERP"):
        sh.append(dict(name="%s/asan-dbg" % part.lower(), src=SRC, flavour="asan-dbg", defines=["SH_" + part]))
        sh.append(dict(name="%s/asan-rel" % part.lower(), src=SRC, flavour="asan-rel", defines=["SH_" + part], primary=False))
    ctx.run_shards(sh, timeout=3600)
    return ctx.finish(
        rule=("(1) clamp<identity<V^N>> for V in {int,unsigned,size_t,long,float,double}, N 1..4, the coordinate descriptor spelled with the library aliases (int3, ulong4, float2, ...; the alias table itself is observed too) (shows the delegated coordinate): seeded random "
              "boxes lo<=hi (incl. lo=hi, negative, type extremes as bounds; every fourth box written with ONE scalar per member -- every eighth with a scalar of "
              "another arithmetic type, as in {{1},{5}} for longs or doubles; two of three fields reach their box by copy-/move-assignment over the previous one) x the extremes catalogue per axis {lo,hi,+-1 step around each, "
              "midpoint, type max/lowest and their neighbours, 0, 1, -1, +-inf, +-denorm_min, min normal, -0} crossed over the axes (complete "
              "up to 3000 tuples, sampled beyond) plus random bit patterns; oracle c<lo?lo:(hi<c?hi:c), numeric equality.  (2) clamp over "
              "strided/morton over array storage (unique id per cell, ASan + library assertions; every second field looked up through a dumped and reloaded copy) and over the index-recording probe storage "
              "(extents up to 2^40 cells, no memory): flat index in range and equal to that of the clamped coordinate.  (3) clamp above "
              "nearest_neighbour and above linear (box [0,extent-1) in the real domain) over strided<array>: value equals that of an admissible "
              "lattice point / the exact interpolant within the C03 bound.  (4) clamp BELOW both interpolators (interp<clamp<strided<array>>>, random "
              "sub-boxes of the extents) with real coordinates from 0 up to 9*10^18: value equals the interpolant over the clamped corner cells / the "
              "value at the clamp of a nearest lattice point.  non-trivial: >= 1 component strictly outside the box; distinct = "
              "hash of (instantiation, box/extents, coordinate)"),
        assumptions=["NaN coordinates excluded (as the property states)",
                     "below an interpolator coordinates stay below 2^63: from 2^64 on the float-to-index conversion is undefined before any layer can clamp"])
