"""C08 -- truncated or mis-tagged input is rejected with an exception (fault enumeration over damaged streams)."""
import os
from gen import zoo
from vlib import core, zoorun

LEVEL = "fault_enumeration"
SIZE = {"float": 4, "double": 8}


def payload_estimate(st):
    l = st.layers[-1]
    return (l["len"] * l["out"][1] * SIZE[l["out"][0]]) if l["kind"] == "array" else 0


def pick(stacks, n):
    """greedy cover of layer kinds, preferring small dumps (complete prefix enumeration), then top up"""
    pool = sorted([s for s in stacks if payload_estimate(s) <= 1200], key=lambda s: (payload_estimate(s), s.name()))
    need = set(k for s in pool for k in (l["kind"] for l in s.layers))
    chosen, covered = [], set()
    while covered != need and pool:
        best = max(pool, key=lambda s: (len(set(l["kind"] for l in s.layers) - covered), -payload_estimate(s)))
        if not set(l["kind"] for l in best.layers) - covered:
            break
        chosen.append(best)
        covered |= set(l["kind"] for l in best.layers)
        pool.remove(best)
    arr = [s for s in pool if s.has_array()]
    oth = [s for s in pool if not s.has_array()]
    while len(chosen) < n and (arr or oth):
        src = arr if (len(chosen) % 3 != 2 and arr) or not oth else oth
        chosen.append(src.pop(0))
    return chosen[:max(n, len(chosen))]


def shards_for(ctx, chosen, flavour, primary, defines=()):
    sh = zoorun.make_shards(ctx, chosen, "zio::drive_c08<{Z}>();", "faults", flavour=flavour, extra_include="zoo_io.hpp",
                            per_shard=max(1, (len(chosen) + 15) // 16), primary=primary, defines=defines)
    # ordered pairs of stacks whose on-disk signatures differ: the reader must reject the writer's file.
    # Stacks are grouped by twelve; every ordered pair inside a group is offered (a translation unit holds one group).
    npairs = 0
    for g in range(0, len(chosen), 12):
        grp = chosen[g:g + 12]
        pairs = [(a, b) for a in range(len(grp)) for b in range(len(grp)) if a != b and grp[a].io_signature() != grp[b].io_signature()]
        npairs += len(pairs)
        per = 66
        for i in range(0, len(pairs), per):
            calls = ["zio::drive_c08_pair<Z%d, Z%d>();" % (a, b) for a, b in pairs[i:i + per]]
            src = zoo.translation_unit(grp, 0, "zoo_io.hpp", None, extra_calls=calls)
            sh.append(dict(name="pairs/group%d.%d/%s" % (g // 12, i // per, flavour), src=src, is_text=True, flavour=flavour, primary=primary, defines=list(defines)))
    # siblings: every chosen stack with a storage-order layer against the same stack over another order (same payload
    # layout, only the tag tells them apart), both directions
    sib = [(s, s.sibling_order()) for s in chosen]
    sib = [(a, b) for a, b in sib if b is not None]
    for g in range(0, len(sib), 8):
        grp, calls = [], []
        for a, b in sib[g:g + 8]:
            i = len(grp)
            grp += [a, b]
            calls += ["zio::drive_c08_pair<Z%d, Z%d>();" % (i, i + 1), "zio::drive_c08_pair<Z%d, Z%d>();" % (i + 1, i)]
            npairs += 2
        src = zoo.translation_unit(grp, 0, "zoo_io.hpp", None, extra_calls=calls)
        sh.append(dict(name="siblings/group%d/%s" % (g // 8, flavour), src=src, is_text=True, flavour=flavour, primary=primary, defines=list(defines)))
    return sh, npairs


def run(ctx):
    stacks = zoo.select(ctx.seed + 3000, ctx.tier, limit=600 if ctx.thorough else 150)
    chosen = pick(stacks, 120 if ctx.thorough else 12)
    sh, npairs = shards_for(ctx, chosen, "asan-dbg", True)
    sh2, _ = shards_for(ctx, chosen, "asan-rel", False)
    vg = chosen[:30] if ctx.thorough else chosen[:8]
    sh3 = zoorun.make_shards(ctx, vg, "zio::drive_c08<{Z}>();", "faults", flavour="vg-O0", extra_include="zoo_io.hpp", per_shard=1,
                             primary=False, defines=["VH_VALGRIND"])
    # (5) dimension mismatch: same layer kinds, another number of dimensions (hand-written ladder, harness/c08_dims.cpp)
    dims = os.path.join(core.HARNESS, "c08_dims.cpp")
    sh4 = []
    for o, oname in enumerate(["strided", "morton-bmi2", "morton-portable", "hilbert"]):
        sh4.append(dict(name="dimension-mismatch/%s/asan-dbg" % oname, src=dims, flavour="asan-dbg+bmi2" if o == 1 else "asan-dbg", defines=["SH_O=%d" % o]))
        sh4.append(dict(name="dimension-mismatch/%s/asan-rel" % oname, src=dims, flavour="asan-rel", defines=["SH_O=%d" % o], primary=False))
    runs = ctx.run_shards(sh + sh2 + sh3 + sh4, timeout=7200)
    ctx.stats["damaged_loads_under_memcheck"] = sum(r.ev for r in runs if r is not None and r.flavour.startswith("vg"))
    ctx.stats["damaged_loads_under_asan_ndebug"] = sum(r.ev for r in runs if r is not None and r.flavour.startswith("asan-rel"))
    return ctx.finish(
        rule=("dumps of %d representative generated stacks (greedy cover of every layer kind, small payloads first): (1) EVERY proper prefix of the "
              "dump (complete when the dump is <= 1500 bytes (6000 thorough); otherwise the first and last 600 bytes and every 13th offset); (2) every "
              "occurrence of a global/per-layer header magic, header tag, footer magic, footer tag and float-width word replaced by {every one of its 32 "
              "single-bit flips, 0, +-0x20000000 (header<->footer form), the other magic, real layer tags incl. the CUDA array's, another layer's tag "
              "from the same dump, all bits inverted, random}; width words by {all 32 single-bit flips, 0,1,2,3,5,6,7,9,16, byte-swapped 4/8, the other valid width, random}; (3) a stream buffer that fails (EOF-style "
              "and by throwing from underflow/xsgetn) from the n-th read call for every n (strided when a load needs > 400 calls), and a stream "
              "that has failed before loading; (4) %d ordered pairs of stacks whose on-disk signatures differ, including every chosen stack against its sibling over another storage order (identical payload layout, only the tag differs); (5) dimension mismatch: dumps of {bare, clamp<>, backup<>, nearest_neighbour<>, affine<linear<>>} over "
              "{strided, morton<true>, morton<false>, hilbert} with N dimensions offered to the same stack with N+-1 / N+-2 dimensions (outer tags agree, only "
              "the amount of configuration differs), random extents; (1) and (3) are repeated on streams whose exception mask is set "
              "(failbit|badbit, badbit|eofbit, all three).  A loader that does not return is reported by the watchdog (hang).  Accepted outcome: an exception "
              "derived from std::exception leaves field(std::istream&).  Monitors: outcome classification in ASan+UBSan builds with assertions on "
              "and off; valgrind memcheck (-O0 build, error-count delta per load) for decisions on uninitialised bytes.  non-trivial/distinct: "
              "hash of (dump, fault kind, position/value)") % (len(chosen), npairs),
        assumptions=["the element-count word is not corrupted: the property does not promise rejection of a well-formed file that lies about its size",
                     "stack pairs whose byte streams coincide up to the freedoms the format grants (float width of the array payload, untagged layers, equal-sized configuration payloads) are compatible by construction of the format and are not offered as 'incompatible'",
                     "memcheck cannot see a decision on stale-but-initialised memory; the -O0 build gives each read a fresh frame"],
        exhaustive=True,
        extra_coverage={"zoo": zoorun.describe(chosen), "exhaustive_scope": "truncation points of every dump under the size cap (see counters dumps_with_complete_prefix_enumeration)",
                        "incompatible_pairs": npairs})
