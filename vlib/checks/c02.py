"""C02 -- a stack's lookup is the composition of its layers' maps (reference interpreter over generated stacks)."""
from gen import zoo
from vlib import zoorun

LEVEL = "exploration"


def run(ctx):
    stacks = zoo.select(ctx.seed, ctx.tier, limit=2600 if ctx.thorough else 150)
    sh = zoorun.make_shards(ctx, stacks, "zoo::drive_c02<{Z}>();", "c02", flavour="asan-dbg")
    if ctx.thorough:
        sh += zoorun.make_shards(ctx, stacks, "zoo::drive_c02<{Z}>();", "c02", flavour="asan-rel", primary=False)
    ctx.run_shards(sh, timeout=7200)
    return ctx.finish(
        rule=("stacks drawn from the layer grammar (gen/zoo.py): quick = greedy cover of every ordered pair of adjacent layer kinds plus a "
              "seeded top-up to 150 stacks of depth <= 5; thorough = every kind sequence of depth <= 4 plus sampled depth-5 sequences (2000); "
              "N and M rotate over 16 (N,M) pairs incl. N != M; index type, coordinate type, storage type, extents, boxes, permutations, "
              "affine matrices and constants are seeded random (small integers / multiples of 1/4 so the reference is exact). Arrays are "
              "filled directly through the array backend. Per stack 200 (500) proposed coordinates (lattice, quarter-steps, outside); the "
              "binary128 interpreter evaluates the same description layer by layer and filters out-of-domain lookups before covfie is called; "
              "both view lookup forms compared by equality. non-trivial: stack of depth >= 2 on which >= 2 layers change coordinate or value "
              "and >= 8 in-domain lookups were compared; distinct = hash of the stack description"),
        assumptions=["oracle trusted base: harness/model.hpp (one-line semantics per layer) and gen/zoo.py emitting the same configuration into the C++ pack and into the model",
                     "depth > 5 not explored; value exactness beyond small integers is C03/C09's business"],
        extra_coverage={"zoo": zoorun.describe(stacks)})
