"""C17 -- a field's configuration can be read back and used to rebuild it; the positional pack helper."""
import os
from gen import zoo
from vlib import core, zoorun

LEVEL = "exploration"


def run(ctx):
    stacks = zoo.select(ctx.seed + 1000, ctx.tier, limit=1200 if ctx.thorough else 120)
    sh = zoorun.make_shards(ctx, stacks, "zoo::drive_c17<{Z}>();", "c17", flavour="asan-dbg")
    sh.append(dict(name="helper/asan-dbg", src=os.path.join(core.HARNESS, "c17_helper.cpp"), flavour="asan-dbg"))
    sh.append(dict(name="helper/asan-rel", src=os.path.join(core.HARNESS, "c17_helper.cpp"), flavour="asan-rel", primary=False))
    ctx.run_shards(sh, timeout=7200)
    return ctx.finish(
        rule=("generated stacks (gen/zoo.py, as C02 with a different seed offset) with all-distinct random configuration values per layer: "
              "(i) get_configuration() at depth i along the get_backend() chain equals the i-th configuration passed in, member-wise, down to the "
              "innermost layer; (ii) the same through make_parameter_pack_for<field_t>; (iii) a field rebuilt from the reported configurations "
              "plus a copy of the innermost storage has the same configurations and agrees with the reference interpreter at every proposed "
              "in-domain coordinate; (iv) the same through every other constructor form the layers offer, generated per stack: layer k copied "
              "whole under the outer configurations, layer k from (configuration, inner layer moved in), from (configuration, inner layer as "
              "an lvalue), and for row-major/Morton layers from a NAMED storage object used for two rebuilds (second one checked) and from a "
              "named const one.  Helper part: affine^k<identity<float2>> for k = 1..9 with a distinct matrix per layer, "
              "strided<size1, array<>> with extent != storage length (both nd_size<1>), and a 10-deep mixed stack - configuration types that "
              "coincide at adjacent positions are the only way a positional mix-up can compile.  non-trivial: stack of depth >= 2; "
              "distinct = hash of the stack description"),
        assumptions=["configuration equality is member-wise operator== on the values the generator passed in (all exactly representable)"],
        extra_coverage={"zoo": zoorun.describe(stacks)})
