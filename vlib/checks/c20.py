"""C20 -- compile-time sort / is_permutation, decided on run-time tables of the metaprogram's outputs."""
import itertools
import random

LEVEL = "exploration"

HEAD = r'''
#include <algorithm>
#include <array>
#include <cstdint>
#include <utility>
#include <vector>
#include <covfie/core/utility/static_permutation.hpp>
#include "vh.hpp"
using namespace covfie::utility;
constexpr int MAXN = 26;
template <class S> struct arr;
template <std::size_t... Is> struct arr<std::index_sequence<Is...>> {
    static constexpr int n = (int)sizeof...(Is);
    static constexpr std::array<uint64_t, MAXN> value{Is...};
};
struct SortRow { int n; std::array<uint64_t, MAXN> in; int m; std::array<uint64_t, MAXN> out; };
struct PermRow { int na; std::array<uint64_t, MAXN> a; int nb; std::array<uint64_t, MAXN> b; bool got; };
static std::string show(const std::vector<uint64_t>& v) { return "{" + vh::join(v) + "}"; }
static void sort_row(const SortRow& r) {
    std::vector<uint64_t> in(r.in.begin(), r.in.begin() + r.n), out(r.out.begin(), r.out.begin() + r.m);
    std::vector<uint64_t> want = in; std::sort(want.begin(), want.end());
    vh::ev();
    bool sorted = std::is_sorted(in.begin(), in.end());
    bool dup = std::adjacent_find(want.begin(), want.end()) != want.end();
    if (!sorted || dup) { vh::nontrivial(vh::fnv(in.data(), in.size() * 8, 5)); if (in.size() >= 4 && !sorted && dup) vh::sample("sort", show(in) + " -> " + show(out), 2); }
    if (!std::is_sorted(out.begin(), out.end())) vh::viol("sort:not-ascending", show(in) + " -> " + show(out));
    else if (out != want) vh::viol("sort:not-a-rearrangement", show(in) + " -> " + show(out) + " want " + show(want));
}
static void perm_row(const PermRow& r) {
    std::vector<uint64_t> a(r.a.begin(), r.a.begin() + r.na), b(r.b.begin(), r.b.begin() + r.nb);
    bool got = r.got;
    bool want = a.size() == b.size() && std::is_permutation(a.begin(), a.end(), b.begin());
    vh::ev();
    bool trivial = a == b || (std::is_sorted(a.begin(), a.end()) && std::is_sorted(b.begin(), b.end()));
    if (!trivial) { vh::nontrivial(vh::fnv(b.data(), b.size() * 8, vh::fnv(a.data(), a.size() * 8, 9) * 31 + a.size())); if (want && a.size() >= 3) vh::sample("is_permutation", show(a) + " ~ " + show(b) + " = " + (got ? "true" : "false"), 2); }
    if (got != want) vh::viol(std::string("is_permutation:") + (want ? "false-negative" : "false-positive"), show(a) + " vs " + show(b));
}
'''
MAIN = r'''
int main(int argc, char** argv) {
    vh::init(argc, argv);
    for (const auto& r : sort_rows) if (r.n >= 0) sort_row(r);
    for (const auto& r : perm_rows) if (r.na >= 0) perm_row(r);
    return vh::finish();
}
'''


def seqs(alpha, maxlen):
    for n in range(maxlen + 1):
        for t in itertools.product(range(alpha), repeat=n):
            yield t


def iseq(t):
    return "std::index_sequence<%s>" % ", ".join("%dull" % v for v in t)


def lit(t):
    return "{%s}" % ", ".join("%dull" % v for v in t)


def sort_line(t):
    s = "arr<typename sort_index_sequence<%s>::type>" % iseq(t)
    return "    {%d, {%s}, %s::n, %s::value}," % (len(t), lit(t), s, s)


def perm_line(a, b):
    return "    {%d, {%s}, %d, {%s}, is_permutation<%s, %s>::value}," % (len(a), lit(a), len(b), lit(b), iseq(a), iseq(b))


def tu(sort_rows, perm_rows):
    return (HEAD + "static const SortRow sort_rows[] = {\n" + "\n".join(sort_rows) + "\n    {-1, {{}}, 0, {{}}}\n};\n"
            + "static const PermRow perm_rows[] = {\n" + "\n".join(perm_rows) + "\n    {-1, {{}}, 0, {{}}, true}\n};\n" + MAIN)


def chunks(lst, n):
    for i in range(0, len(lst), n):
        yield lst[i:i + n]


def run(ctx):
    rng = random.Random(ctx.seed * 1009 + 20)
    sort_rows = [sort_line(t) for t in seqs(5, 6 if ctx.thorough else 4)]
    ps = list(seqs(4, 4 if ctx.thorough else 3))
    perm_rows = [perm_line(a, b) for a in ps for b in ps]
    # seeded random: long sequences, large values, planted duplicates; permuted / perturbed partners
    nrand = 600 if ctx.thorough else 150
    for _ in range(nrand):
        n = rng.randint(0, 24)
        pool = [rng.choice([rng.randrange(0, 6), rng.randrange(0, 2 ** 64), 2 ** 63 - 1, 2 ** 63, 2 ** 64 - 1, 2 ** 64 - 2, 2 ** 32,
                            2 ** 32 + 1, 2 ** 32 - 1, rng.randrange(0, 2 ** 32)])
                for _ in range(max(1, n // 2 + 1))]
        a = [rng.choice(pool) for _ in range(n)]
        sort_rows.append(sort_line(a))
        b = list(a)
        rng.shuffle(b)
        mode = rng.randrange(4)
        if mode == 1 and b:
            b[rng.randrange(len(b))] = rng.choice(pool + [7])
        elif mode == 2 and b:
            b.pop()
        elif mode == 3:
            b.append(rng.choice(pool))
        perm_rows.append(perm_line(a, b))
    big = [0, 1, 2 ** 32, 2 ** 64 - 2, 2 ** 64 - 1]
    for n in range(1, 4):
        for t in itertools.product(big, repeat=n):
            sort_rows.append(sort_line(t))
    for a in itertools.product(big, repeat=2):
        for b in itertools.product(big, repeat=2):
            perm_rows.append(perm_line(a, b))
    shards = []
    for i, c in enumerate(chunks(sort_rows, 1200)):
        shards.append(dict(name="sort/%d" % i, src=tu(c, []), is_text=True, flavour="plain-dbg"))
    for i, c in enumerate(chunks(perm_rows, 4000)):
        shards.append(dict(name="perm/%d" % i, src=tu([], c), is_text=True, flavour="plain-dbg"))
    ctx.run_shards(shards)
    return ctx.finish(
        rule=("sorting: every sequence of length <= %d over {0..4} (exhaustive) + seeded random sequences of length <= 24 with values up to SIZE_MAX (2^32 and 2^63 neighbours, SIZE_MAX and SIZE_MAX-1 planted) "
              "and planted duplicates; predicate: every ordered pair of sequences of length <= %d over {0..3} (exhaustive) + random "
              "shuffled/perturbed partners.  The metaprogram's outputs are materialised as constant tables and compared at run time with "
              "std::sort / std::is_permutation.  non-trivial: sort input unsorted or with a duplicate; predicate pair not identical and not "
              "both sorted.  distinct = hash of the input sequence(s)") % ((6, 4) if ctx.thorough else (4, 3)),
        assumptions=["the metaprogram runs inside g++ 12; its results are observed as ordinary values at run time",
                     "a table row that does not compile is reported as a violation of its shard (not-executable), not skipped"],
        exhaustive=True, extra_coverage={"rows": {"sort": len(sort_rows), "is_permutation": len(perm_rows)}})
