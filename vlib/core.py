"""Driver core: build cache, flavours, watchdogged runs, protocol parsing,
known-findings matching, evidence and replay files.  Stdlib only."""
import concurrent.futures as cf
import fnmatch
import hashlib
import json
import os
import re
import shutil
import signal
import subprocess
import sys
import threading
import time

VERIF = os.path.dirname(os.path.dirname(os.path.abspath(__file__)))
HARNESS = os.path.join(VERIF, "harness")
BUILD = os.path.join(VERIF, "build")
EVIDENCE = os.environ.get("VERIF_EVIDENCE_DIR") or os.path.join(VERIF, "evidence")
REPLAY = os.environ.get("VERIF_REPLAY_DIR") or os.path.join(VERIF, "replay")
KNOWN = os.path.join(VERIF, "known_findings.json")
CXX = os.environ.get("VERIF_CXX", "g++")

SAN = ["-fsanitize=address,undefined", "-fsanitize=float-cast-overflow",
       "-fno-sanitize-recover=all", "-fno-omit-frame-pointer"]
FLAVOURS = {
    "asan-dbg": ["-O1", "-g"] + SAN,
    "asan-rel": ["-O2", "-g", "-DNDEBUG"] + SAN,
    "tsan": ["-O1", "-g", "-fsanitize=thread"],
    "plain-dbg": ["-O0", "-g"],
    "plain-rel": ["-O2", "-DNDEBUG"],
    "vg-O0": ["-O0", "-g", "-DNDEBUG"],
    "vg-dbg": ["-O0", "-g"],
    "vg-rel": ["-O2", "-g", "-DNDEBUG"],
    "syntax": ["-fsyntax-only"],
    "cov": ["-O0", "-g", "--coverage"],
}
VALGRIND_FLAVOURS = {"vg-O0", "vg-dbg", "vg-rel"}

ASAN_OPTIONS = ("abort_on_error=1:detect_leaks=1:allocator_may_return_null=1:"
                "max_allocation_size_mb=3072:detect_stack_use_after_return=1:"
                "strict_string_checks=1:handle_abort=0")
UBSAN_OPTIONS = "print_stacktrace=1:abort_on_error=1:halt_on_error=1"


_LOCKS = {}
_LOCKS_GUARD = threading.Lock()


def sha(*parts):
    h = hashlib.sha256()
    for p in parts:
        if isinstance(p, str):
            p = p.encode()
        h.update(p)
        h.update(b"\0")
    return h.hexdigest()


def tree_hash(root, exts=(".hpp", ".h", ".cpp", ".inc")):
    h = hashlib.sha256()
    for d, dirs, files in sorted(os.walk(root)):
        dirs.sort()
        for f in sorted(files):
            if f.endswith(exts):
                p = os.path.join(d, f)
                h.update(os.path.relpath(p, root).encode())
                with open(p, "rb") as fh:
                    h.update(fh.read())
    return h.hexdigest()


class Build:
    def __init__(self, name, ok, exe, log, flavour, cached, secs):
        self.name, self.ok, self.exe, self.log = name, ok, exe, log
        self.flavour, self.cached, self.secs = flavour, cached, secs


class Run:
    def __init__(self, name, rc, out, err, timed_out, secs, flavour):
        self.name, self.rc, self.out, self.err = name, rc, out, err
        self.timed_out, self.secs, self.flavour = timed_out, secs, flavour
        self.ev = 0
        self.nt = 0
        self.stats = {}
        self.sets = {}
        self.maxs = {}
        self.samples = []
        self.viols = []   # (key, detail)
        self.skips = []
        self.done = False
        self.lines = {}   # other @TAG lines: tag -> [text]
        self.parse()

    def parse(self):
        for line in self.out.splitlines():
            if not line.startswith("@"):
                continue
            tag, _, rest = line.partition(" ")
            if tag == "@EV":
                self.ev += int(rest)
            elif tag == "@NT":
                self.nt += int(rest)
            elif tag == "@STAT":
                k, _, v = rest.rpartition(" ")
                self.stats[k] = self.stats.get(k, 0) + int(v)
            elif tag == "@MAX":
                k, _, v = rest.rpartition(" ")
                self.maxs[k] = max(self.maxs.get(k, 0), int(v))
            elif tag == "@SET":
                k, _, v = rest.rpartition(" ")
                self.sets[k] = self.sets.get(k, 0) + int(v)
            elif tag == "@SAMPLE":
                self.samples.append(rest)
            elif tag == "@VIOL":
                k, _, d = rest.partition("\t")
                self.viols.append((k, d))
            elif tag == "@SKIP":
                k, _, d = rest.partition("\t")
                self.skips.append((k, d))
            elif tag == "@DONE":
                self.done = True
            else:
                self.lines.setdefault(tag, []).append(rest)

    def death(self):
        """Classify an abnormal end; returns (kind, case) or None."""
        if self.timed_out:
            return ("hang", self._case())
        if self.rc == 0 and self.done:
            return None
        e = self.err
        m = re.search(r"ERROR: (AddressSanitizer|LeakSanitizer|ThreadSanitizer): ([A-Za-z0-9_-]+)", e)
        if m:
            what = m.group(2)
            if m.group(1) == "LeakSanitizer":
                what = "leak"
            return ("%s:%s" % (m.group(1).replace("Sanitizer", "").lower() + "san", what), self._case())
        m = re.search(r"==\d+== (Invalid (?:read|write|free)[^\n]*|Conditional jump or move depends on uninitialised value|Use of uninitialised value[^\n]*|"
                      r"Mismatched free[^\n]*|Source and destination overlap[^\n]*|Syscall param[^\n]*|Argument '[^\n]*|Process terminating[^\n]*)", e)
        if m and self.flavour.partition("+")[0] in VALGRIND_FLAVOURS:
            return ("memcheck:" + re.sub(r"\d+", "#", m.group(1)).strip().replace(" ", "_")[:70], self._case())
        m = re.search(r"WARNING: ThreadSanitizer: ([^\n(]+)", e)
        if m:
            return ("tsan:" + m.group(1).strip().replace(" ", "-"), self._case())
        m = re.search(r"runtime error: ([^\n]*)", e)
        if m:
            msg = re.sub(r"0x[0-9a-f]+", "ADDR", m.group(1))
            msg = re.sub(r"-?\d+(\.\d+)?(e[+-]?\d+)?", "#", msg)
            return ("ubsan:" + msg.strip()[:80].replace(" ", "_"), self._case())
        m = re.search(r"([\w./+-]+):(\d+): [^\n]*Assertion `([^']*)' failed", e)
        if m:
            return ("assert:%s:%s" % (os.path.basename(m.group(1)), m.group(3)[:60].replace(" ", "")), self._case())
        m = re.search(r"terminate called after throwing an instance of '([^']+)'", e)
        if m:
            return ("uncaught:" + m.group(1), self._case())
        if self.rc < 0:
            return ("signal:%d" % -self.rc, self._case())
        if not self.done:
            return ("exit:%d" % self.rc, self._case())
        return ("exit:%d" % self.rc, self._case())

    def _case(self):
        m = re.findall(r"@DEATH kind=(\S+) case=([^\n]*)", self.err)
        return m[-1][1] if m else "?"


class Ctx:
    def __init__(self, prop, tier, seed, level="exploration"):
        self.prop = prop
        self.tier = tier
        self.thorough = tier == "thorough"
        self.seed = seed
        self.level = level
        self.repo = os.path.abspath(os.environ.get("VERIF_REPO", "/repo"))
        self.jobs = int(os.environ.get("VERIF_JOBS", str(os.cpu_count() or 4)))
        self.t0 = time.time()
        self.repo_hash = tree_hash(os.path.join(self.repo, "lib"))
        self.harness_hash = tree_hash(HARNESS, exts=(".hpp", ".h"))
        self.cxx_version = subprocess.run([CXX, "--version"], capture_output=True, text=True).stdout.splitlines()[0]
        self.violations = {}      # key -> dict(detail, replay)
        self.known_hits = {}      # key-pattern -> what
        self.ev = 0
        self.nt = 0
        self.stats = {}
        self.sets = {}
        self.maxs = {}
        self.samples = []
        self.shards = []          # per-shard summary
        self.notes = []
        self.san_reports = 0
        self.exhaustive = None
        self.harness_errors = []
        self.replay_n = 0
        self.known = self._load_known()
        self.replay_mode = None
        os.makedirs(BUILD, exist_ok=True)
        os.makedirs(EVIDENCE, exist_ok=True)

    # ------------------------------------------------------------ known findings
    def _load_known(self):
        if not os.path.exists(KNOWN):
            return []
        with open(KNOWN) as fh:
            doc = json.load(fh)
        return [e for e in doc.get("findings", [])]

    def _match_known(self, key):
        full = "%s:%s" % (self.prop, key)
        for e in self.known:
            if e.get("status") != "open" or e.get("property") != self.prop:
                continue
            if fnmatch.fnmatchcase(full, e["key"]):
                return e
        return None

    # ------------------------------------------------------------ includes / flags
    def includes(self, cuda_shim=False):
        inc = ["-I" + HARNESS, "-I" + os.path.join(self.repo, "lib", "core"),
               "-I" + os.path.join(self.repo, "lib", "cpu")]
        if cuda_shim:
            inc += ["-I" + os.path.join(VERIF, "shim"), "-I" + os.path.join(self.repo, "lib", "cuda")]
        return inc

    def flags(self, flavour):
        base, _, extra = flavour.partition("+")
        fl = list(FLAVOURS[base])
        for x in extra.split("+") if extra else []:
            if x == "bmi2":
                fl.append("-mbmi2")
            else:
                raise KeyError(x)
        return fl

    # ------------------------------------------------------------ compile
    def compile(self, name, src, flavour, defines=(), cuda_shim=False, libs=("-lquadmath",), is_text=False):
        """src: path of a .cpp (or source text if is_text).  Returns Build."""
        if is_text:
            text = src
        else:
            with open(src) as fh:
                text = fh.read()
        flags = ["-std=gnu++20", "-w"] + self.flags(flavour) + ["-D%s" % d for d in defines]
        syntax_only = "-fsyntax-only" in flags
        key = sha(self.repo_hash, self.harness_hash, text, " ".join(flags), self.cxx_version,
                  "shim" if cuda_shim else "", " ".join(libs))[:32]
        d = os.path.join(BUILD, key[:2], key)
        exe = os.path.join(d, "a.out")
        okf, failf, logf = os.path.join(d, "ok"), os.path.join(d, "fail"), os.path.join(d, "log")
        # identical jobs (same source and flags, e.g. shards that differ only in their arguments) share one build
        with _LOCKS_GUARD:
            lock = _LOCKS.setdefault(key, threading.Lock())
        with lock:
            return self._compile_locked(name, text, flavour, flags, syntax_only, cuda_shim, libs, d, exe, okf, failf, logf)

    def _compile_locked(self, name, text, flavour, flags, syntax_only, cuda_shim, libs, d, exe, okf, failf, logf):
        if os.path.exists(okf):
            return Build(name, True, exe, "", flavour, True, 0.0)
        if os.path.exists(failf):
            with open(logf) as fh:
                return Build(name, False, None, fh.read(), flavour, True, 0.0)
        os.makedirs(d, exist_ok=True)
        srcp = os.path.join(d, "src.cpp")
        if not os.path.exists(srcp):
            tmps = "%s.%d.%d" % (srcp, os.getpid(), threading.get_ident())
            with open(tmps, "w") as fh:
                fh.write(text)
            os.replace(tmps, srcp)
        tmpexe = "%s.tmp.%d.%d" % (exe, os.getpid(), threading.get_ident())   # another process may build the same key
        cmd = [CXX] + flags + self.includes(cuda_shim) + [srcp]
        if not syntax_only:
            cmd += ["-o", tmpexe] + list(libs) + ["-lpthread"]
        t = time.time()
        try:
            p = subprocess.run(cmd, capture_output=True, text=True, timeout=3600)
            rc, log = p.returncode, p.stderr
        except subprocess.TimeoutExpired:
            rc, log = 124, "compiler timed out"
        secs = time.time() - t
        with open(logf, "w") as fh:
            fh.write(log)
        if rc == 0:
            if not syntax_only:
                os.replace(tmpexe, exe)
            open(okf, "w").close()
            return Build(name, True, exe, log, flavour, False, secs)
        if rc == 124 or "internal compiler error" in log or "Killed" in log or "cannot allocate" in log.lower():
            # not a verdict about covfie: do not cache
            shutil.rmtree(d, ignore_errors=True)
            self.harness_errors.append("compiler trouble on %s: %s" % (name, log[-300:]))
            return Build(name, False, None, log, flavour, False, secs)
        open(failf, "w").close()
        return Build(name, False, None, log, flavour, False, secs)

    def compile_many(self, jobs):
        """jobs: list of dict(name, src, flavour, defines, ...) -> list of Build in order."""
        with cf.ThreadPoolExecutor(max_workers=self.jobs) as ex:
            futs = [ex.submit(self.compile, **j) for j in jobs]
            return [f.result() for f in futs]

    # ------------------------------------------------------------ run
    def run(self, build, args=(), env=None, timeout=900, name=None, stdin=None, valgrind_args=None):
        e = dict(os.environ)
        e.update({"ASAN_OPTIONS": ASAN_OPTIONS, "UBSAN_OPTIONS": UBSAN_OPTIONS,
                  "VERIF_SEED": str(self.seed), "VERIF_TIER": self.tier,
                  "TSAN_OPTIONS": "halt_on_error=0:report_signal_unsafe=0:second_deadlock_stack=1"})
        if self.replay_mode and self.replay_mode.get("only"):
            e["VH_ONLY"] = self.replay_mode["only"]
        if env:
            e.update(env)
        cmd = [build.exe] + list(args)
        base = build.flavour.partition("+")[0]
        if base in VALGRIND_FLAVOURS:
            cmd = ["valgrind", "--tool=memcheck", "--error-exitcode=97", "--quiet",
                   "--track-origins=no", "--leak-check=no"] + list(valgrind_args or []) + cmd
        t = time.time()
        timed_out = False
        try:
            p = subprocess.Popen(cmd, stdout=subprocess.PIPE, stderr=subprocess.PIPE, env=e,
                                 stdin=subprocess.PIPE if stdin is not None else subprocess.DEVNULL,
                                 start_new_session=True)
            try:
                out, err = p.communicate(input=stdin, timeout=timeout)
            except subprocess.TimeoutExpired:
                timed_out = True
                try:
                    os.killpg(p.pid, signal.SIGKILL)
                except ProcessLookupError:
                    pass
                out, err = p.communicate()
            rc = p.returncode
        except OSError as ex:
            self.harness_errors.append("cannot run %s: %s" % (cmd, ex))
            return Run(name or build.name, 2, "", str(ex), False, 0.0, build.flavour)
        return Run(name or build.name, rc, out.decode("utf-8", "replace"), err.decode("utf-8", "replace"),
                   timed_out, time.time() - t, build.flavour)

    def run_many(self, items):
        """items: list of dict(build=..., args=..., env=..., timeout=..., name=...)."""
        with cf.ThreadPoolExecutor(max_workers=self.jobs) as ex:
            futs = [ex.submit(self.run, **it) for it in items]
            return [f.result() for f in futs]

    # ------------------------------------------------------------ collecting
    def absorb(self, run, shard=None, count=True, count_nt=True):
        shard = shard or run.name
        if count:
            self.ev += run.ev
            if count_nt:
                # counters, distinct sets and distinct_nontrivial describe the PRIMARY flavour of each workload;
                # the same workload repeated under another build flavour adds evaluations, not new cases
                self.nt += run.nt
                self.ev_primary = getattr(self, "ev_primary", 0) + run.ev
                for k, v in run.stats.items():
                    self.stats[k] = self.stats.get(k, 0) + v
                for k, v in run.sets.items():
                    self.sets[k] = self.sets.get(k, 0) + v
            for k, v in run.maxs.items():
                self.maxs[k] = max(self.maxs.get(k, 0), v)
            for s in run.samples:
                if len(self.samples) < 12:
                    self.samples.append(s)
        for k, d in run.viols:
            self.violation(k, d, shard=shard, flavour=run.flavour)
        self.san_reports += len(re.findall(r"ERROR: \w+Sanitizer|runtime error:", run.err))
        death = run.death()
        if death:
            kind, case = death
            if kind == "hang":
                self.violation("%s:hang" % shard, "watchdog fired twice; case=%s" % case, shard=shard, flavour=run.flavour)
            else:
                self.violation("%s:crash:%s" % (shard, kind), "case=%s | %s" % (case, tail(run.err, 1200)),
                               shard=shard, flavour=run.flavour)
        self.shards.append({"shard": shard, "flavour": run.flavour, "rc": run.rc, "ev": run.ev,
                            "secs": round(run.secs, 2)})
        return death is None

    def violation(self, key, detail, shard=None, flavour=None, extra=None):
        k = self._match_known(key)
        if k is not None:
            if k["key"] not in self.known_hits:
                self.known_hits[k["key"]] = k
                print("KNOWN-FINDING: property=%s %s [key %s]" % (self.prop, k["what"], k["key"]))
            return
        if key in self.violations:
            self.violations[key]["count"] += 1
            return
        os.makedirs(REPLAY, exist_ok=True)
        self.replay_n += 1
        path = os.path.join(REPLAY, "%s-%d-%d.json" % (self.prop, self.seed, self.replay_n))
        doc = {"property": self.prop, "key": key, "detail": detail, "shard": shard, "flavour": flavour,
               "seed": self.seed, "tier": self.tier, "repo": self.repo}
        if extra:
            doc.update(extra)
        with open(path, "w") as fh:
            json.dump(doc, fh, indent=1)
        self.violations[key] = {"detail": detail[:2000], "replay": path, "count": 1}
        print("VIOLATION property=%s replay=%s" % (self.prop, path))
        print("  key=%s" % key)
        print("  %s" % detail[:1500].replace("\n", "\n  "))
        sys.stdout.flush()

    def compile_failure(self, build, shard):
        """A covfie instantiation reached through a well-formed program did not compile."""
        first = first_error(build.log)
        self.violation("not-executable:%s" % shard, "compile error (%s): %s" % (build.flavour, first),
                       shard=shard, flavour=build.flavour, extra={"compile_log": build.log[-6000:]})

    # ------------------------------------------------------------ standard shard pipeline
    def run_shards(self, shards, timeout=900, on_compile_fail=None):
        """shards: list of dict(name, src, flavour, defines=(), args=(), env=None, cuda_shim=False,
        is_text=False).  Compiles all, runs all, re-runs hangs once.  Returns list of Run/None."""
        if not self.thorough:
            timeout = min(timeout, 480)   # quick tier: a hang must not take the better part of an hour to report
        if self.replay_mode and self.replay_mode.get("shard"):
            shards = [s for s in shards if s["name"] == self.replay_mode["shard"]] or shards
        builds = self.compile_many([dict(name=s["name"], src=s["src"], flavour=s["flavour"],
                                         defines=tuple(s.get("defines", ())), cuda_shim=s.get("cuda_shim", False),
                                         is_text=s.get("is_text", False)) for s in shards])
        # a shard that does not compile is split into its parts (if it declares any): the parts that
        # compile are still executed, the others are reported individually as not-executable
        extra = []
        for s, b in zip(list(shards), list(builds)):
            if not b.ok and s.get("split") and not any(b.name in h for h in self.harness_errors):
                extra += s["split"]
        if extra:
            xb = self.compile_many([dict(name=s["name"], src=s["src"], flavour=s["flavour"],
                                         defines=tuple(s.get("defines", ())), cuda_shim=s.get("cuda_shim", False),
                                         is_text=s.get("is_text", False)) for s in extra])
            keep = [(s, b) for s, b in zip(shards, builds) if b.ok or not s.get("split")]
            shards = [s for s, _ in keep] + extra
            builds = [b for _, b in keep] + xb
        items, idx = [], []
        for i, (s, b) in enumerate(zip(shards, builds)):
            if not b.ok:
                if not any(b.name in h for h in self.harness_errors):
                    if not (on_compile_fail and on_compile_fail(s, b)):
                        self.compile_failure(b, s["name"])
                continue
            items.append(dict(build=b, args=tuple(s.get("args", ())), env=s.get("env"), timeout=s.get("timeout", timeout),
                              name=s["name"]))
            idx.append(i)
        runs = self.run_many(items)
        # a watchdog firing is inconclusive: the shards concerned are run once more (together, the machine is now idle)
        again = [k for k, r in enumerate(runs) if r.timed_out]
        if again:
            for k, r2 in zip(again, self.run_many([items[k] for k in again])):
                runs[k] = r2
        out = [None] * len(shards)
        for i, it, r in zip(idx, items, runs):
            self.absorb(r, shard=shards[i]["name"], count_nt=shards[i].get("primary", True))
            out[i] = r
        self.compile_secs = round(sum(b.secs for b in builds), 1) + getattr(self, "compile_secs", 0)
        self.cached_builds = sum(1 for b in builds if b.cached) + getattr(self, "cached_builds", 0)
        self.total_builds = len(builds) + getattr(self, "total_builds", 0)
        if self.thorough and not self.replay_mode and not self.violations and os.environ.get("VERIF_NO_COV") != "1":
            self.line_coverage([s for s in shards if s.get("primary", True) and s["flavour"].startswith("asan-dbg")])
        return out

    # ------------------------------------------------------------ thorough tier: which covfie lines did the workload reach?
    def line_coverage(self, shards):
        """re-builds the primary shards with gcov instrumentation (-O0 --coverage), runs them and records, per covfie
        header, the best line coverage any shard achieved.  Evidence only; never a verdict."""
        if not shards:
            return
        jobs = [dict(name="cov:" + s["name"], src=s["src"], flavour="cov", defines=tuple(s.get("defines", ())),
                     cuda_shim=s.get("cuda_shim", False), is_text=s.get("is_text", False)) for s in shards]
        builds = self.compile_many(jobs)
        items = []
        for s, b in zip(shards, builds):
            if b.ok:
                d = os.path.dirname(b.exe)
                for f in os.listdir(d):
                    if f.endswith(".gcda"):
                        os.remove(os.path.join(d, f))
                items.append(dict(build=b, args=tuple(s.get("args", ())), env=s.get("env"), timeout=s.get("timeout", 7200), name=b.name))
        self.run_many(items)
        cov = getattr(self, "cov", {})
        lib = os.path.join(self.repo, "lib") + os.sep
        for it in items:
            d = os.path.dirname(it["build"].exe)
            notes = [f for f in os.listdir(d) if f.endswith(".gcno")]
            if not notes:
                continue
            p = subprocess.run(["gcov", "-n", "-o", d, os.path.join(d, notes[0])], cwd=d, capture_output=True, text=True)
            for m in re.finditer(r"File '([^']+)'\nLines executed:([0-9.]+)% of (\d+)", p.stdout):
                path, pct, n = m.group(1), float(m.group(2)), int(m.group(3))
                if path.startswith(lib):
                    key = path[len(lib):]
                    if key not in cov or cov[key][0] < pct:
                        cov[key] = (pct, n)
        self.cov = cov

    # ------------------------------------------------------------ finish
    def finish(self, rule, assumptions, extra_coverage=None, exhaustive=None, min_nt=2):
        cov = {"evaluations": int(self.ev), "distinct_nontrivial": int(self.nt), "rule": rule,
               "samples": self.samples[:10] or ["(none)"],
               "counters": self.stats, "distinct_sets": self.sets, "maxima": self.maxs,
               "evaluations_primary_flavour": int(getattr(self, "ev_primary", 0)),
               "shards": self.shards[:200], "sanitizer_report_blocks": self.san_reports,
               "builds": {"total": getattr(self, "total_builds", 0), "from_cache": getattr(self, "cached_builds", 0),
                          "compile_cpu_s": getattr(self, "compile_secs", 0)},
               "repo": self.repo, "repo_lib_sha256": self.repo_hash[:16]}
        if getattr(self, "cov", None):
            cov["covfie_header_line_coverage_percent"] = {k: {"best_shard_percent": v[0], "instrumented_lines": v[1]} for k, v in sorted(self.cov.items())}
        if exhaustive is not None:
            cov["exhaustive"] = bool(exhaustive)
        if extra_coverage:
            cov.update(extra_coverage)
        doc = {"property_id": self.prop, "tier": self.tier, "seed": int(self.seed), "level": self.level,
               "coverage": cov, "assumptions": list(assumptions) + self.notes,
               "wall_s": round(time.time() - self.t0, 2), "violations": len(self.violations),
               "violation_keys": sorted(self.violations)[:50],
               "known_findings_hit": sorted(self.known_hits)}
        rc = 0
        if self.violations:
            rc = 1
        if self.harness_errors:
            for h in self.harness_errors:
                print("HARNESS-ERROR: %s" % h)
            rc = rc or 2
        if not self.replay_mode and rc == 0 and (self.ev < 1 or self.nt < min_nt):
            print("HARNESS-ERROR: monitors observed too little (evaluations=%d distinct_nontrivial=%d)" % (self.ev, self.nt))
            rc = 2
        if not self.replay_mode:
            problems = validate_evidence(doc)
            if problems and rc != 1:
                # a violating run on a broken tree may legitimately observe nothing
                if rc == 0:
                    print("HARNESS-ERROR: evidence invalid: %s" % problems)
                    rc = 2
            tmp = os.path.join(EVIDENCE, "%s.json.tmp" % self.prop)
            with open(tmp, "w") as fh:
                json.dump(doc, fh, indent=1, sort_keys=True)
            os.replace(tmp, os.path.join(EVIDENCE, "%s.json" % self.prop))
        print("%s tier=%s seed=%d: evaluations=%d distinct_nontrivial=%d violations=%d known=%d wall=%.1fs exit=%d"
              % (self.prop, self.tier, self.seed, self.ev, self.nt, len(self.violations), len(self.known_hits),
                 time.time() - self.t0, rc))
        return rc


def validate_evidence(doc):
    """Hand-rolled check of the parts of EVIDENCE.schema.json that apply to us."""
    p = []
    for k in ("property_id", "tier", "seed", "level", "coverage", "wall_s"):
        if k not in doc:
            p.append("missing " + k)
    if doc.get("tier") not in ("quick", "thorough"):
        p.append("tier")
    if not isinstance(doc.get("seed"), int):
        p.append("seed")
    c = doc.get("coverage", {})
    if doc.get("level") in ("exploration", "fault_enumeration"):
        if not (isinstance(c.get("evaluations"), int) and c["evaluations"] >= 1):
            p.append("evaluations")
        if not (isinstance(c.get("distinct_nontrivial"), int) and c["distinct_nontrivial"] >= 2):
            p.append("distinct_nontrivial")
        if not isinstance(c.get("rule"), str):
            p.append("rule")
        if not (isinstance(c.get("samples"), list) and len(c["samples"]) >= 1):
            p.append("samples")
    try:
        import jsonschema  # optional
        with open("/root/.vp/EVIDENCE.schema.json") as fh:
            jsonschema.validate(doc, json.load(fh))
    except ImportError:
        pass
    except Exception as ex:  # noqa
        p.append("schema: %s" % str(ex)[:200])
    return p


def tail(s, n):
    return s[-n:] if len(s) > n else s


def first_error(log):
    for line in log.splitlines():
        if re.search(r"\berror\b", line):
            line = re.sub(r"^/\S*/build/\w+/\w+/src\.cpp", "src.cpp", line)
            return line.strip()[:400]
    return log.strip()[:300]


def load_replay(path):
    with open(path) as fh:
        return json.load(fh)
