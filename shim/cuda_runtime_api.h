// Host stand-in for the CUDA runtime API: "device" memory is ordinary heap memory, so that
// AddressSanitizer sees every byte the covfie CUDA backend allocates, copies and frees.
// Exercises the conversion constructors and index arithmetic only; says nothing about a device.
#pragma once
#include <cstdlib>
#include <cstring>

typedef int cudaError_t;
enum { cudaSuccess = 0, cudaErrorMemoryAllocation = 2 };
enum cudaMemcpyKind { cudaMemcpyHostToHost = 0, cudaMemcpyHostToDevice = 1, cudaMemcpyDeviceToHost = 2, cudaMemcpyDeviceToDevice = 3 };

struct vshim_counters {
    unsigned long mallocs = 0, frees = 0, h2d = 0, d2d = 0, bytes = 0;
};
inline vshim_counters & vshim()
{
    static vshim_counters c;
    return c;
}

template <typename T>
inline cudaError_t cudaMalloc(T ** p, std::size_t n)
{
    *p = static_cast<T *>(std::malloc(n ? n : 1));
    ++vshim().mallocs;
    vshim().bytes += n;
    return *p ? cudaSuccess : cudaErrorMemoryAllocation;
}
inline cudaError_t cudaFree(void * p)
{
    if (p) ++vshim().frees;
    std::free(p);
    return cudaSuccess;
}
inline cudaError_t cudaMemcpy(void * dst, const void * src, std::size_t n, cudaMemcpyKind k)
{
    if (k == cudaMemcpyHostToDevice) ++vshim().h2d;
    if (k == cudaMemcpyDeviceToDevice) ++vshim().d2d;
    std::memcpy(dst, src, n);
    return cudaSuccess;
}
inline const char * cudaGetErrorString(cudaError_t)
{
    return "shim error";
}
